#!/bin/bash
# Offline bootstrap of the overlay venv used by every check (DESIGN.md 3.1).
# /venv (the repository's own environment: editable h2 -> /repo/src, hyperframe,
# hpack) is left untouched; crosshair-tool + z3-solver come from the wheelhouse.
set -e
cd "$(dirname "$0")"
V=.venv
if [ -x $V/bin/python ] && $V/bin/python -c 'import crosshair, z3, h2, hyperframe, hpack' 2>/dev/null; then
  exit 0
fi
rm -rf $V
/venv/bin/python -m venv $V
SP=$($V/bin/python -c 'import sysconfig; print(sysconfig.get_paths()["purelib"])')
echo "import site; site.addsitedir('/venv/lib/python3.12/site-packages')" > "$SP/_base.pth"
PIP_NO_INDEX=1 $V/bin/pip install -q --no-index --find-links /opt/veriftools/wheels crosshair-tool z3-solver >/dev/null
$V/bin/python -c 'import crosshair, z3, h2, hyperframe, hpack; print("verif venv ok:", crosshair.__version__, z3.get_version_string(), h2.__file__)'
