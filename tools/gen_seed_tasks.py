#!/usr/bin/env python3
"""tools/gen_seed_tasks.py <round> : writes /tmp/wt/tasks/R<round>_<ID>.md for every claimed
property and creates the scratch worktrees /tmp/wt/R<round>_<ID>.  A task file contains the
property text, the working rules and one-line summaries of the seeds other people already
tried (from seeded/*/meta.json) - nothing about the checks in /verif."""
import json, os, subprocess, sys

rnd = sys.argv[1]
ROOT = '/verif'
props = [json.loads(l) for l in open(ROOT + '/properties.jsonl')]
manifest = json.load(open(ROOT + '/MANIFEST.json'))
claimed = [c['property_id'] for c in manifest['checks']]
os.makedirs('/tmp/wt/tasks', exist_ok=True)
os.makedirs('/tmp/wt/tools', exist_ok=True)
for f in ('baseline.sh', 'known_failures.txt'):
    if not os.path.exists('/tmp/wt/tools/' + f):
        subprocess.check_call(['cp', ROOT + '/tools/aux/' + f, '/tmp/wt/tools/' + f])
EMPH = {
    '3': "Look for bugs of a kind that needs an INTERACTION to show: a second stream in a "
         "different state, the other role (client vs server), the h2c upgrade path, a non-default "
         "configuration option, a pushed/reserved stream, a connection that is already closing, "
         "or a numeric boundary (0, 1, 16384, 2^24-1, 2^31-1, 2^32-1).  Also consider bugs in the "
         "bookkeeping that only LATER calls read (caches, high-water marks, counters, remembered "
         "closing reasons, queued settings), and bugs where a raised exception leaves something "
         "half-done.",
}
for p in props:
    pid = p['id']
    if pid not in claimed:
        continue
    wt = '/tmp/wt/R%s_%s' % (rnd, pid)
    subprocess.run('git -C /repo worktree remove --force %s' % wt, shell=True, capture_output=True)
    subprocess.check_call('git -C /repo worktree add --detach -q %s HEAD' % wt, shell=True)
    tried = []
    for s in sorted(os.listdir(ROOT + '/seeded')):
        if s.startswith(pid + '-') and os.path.isdir(ROOT + '/seeded/' + s):
            try:
                m = json.load(open('%s/seeded/%s/meta.json' % (ROOT, s)))
                tried.append('- ' + ' '.join(str(m.get('summary', '')).split())[:420])
            except Exception:
                pass
    text = """# Task: seed a subtle bug that breaks ONE stated property of hyper-h2

You are working on a private scratch copy (a git worktree) of the Python library
python-hyper/hyper-h2 (pure-Python sans-IO HTTP/2 stack) at:

    {wt}

Library source is in `{wt}/src/h2/`, its tests in `{wt}/test/`. Work ONLY inside `{wt}`
(and /tmp for scratch files). Do not touch, read or write `/repo` or `/verif`. Do not commit
anything. Do NOT use `git stash` (the stash is shared across worktrees and other workers run
concurrently): save a diff with `git -C {wt} diff -- src > file`, go back to the pristine tree
with `git -C {wt} checkout -- src`, re-apply with `git -C {wt} apply file`.

## The property

**{pid} - {title}**

{statement}

Quantified over: {quant}

## What to produce

Produce **2 different** small source changes ("seeds") to `src/h2/*.py`, each of which

1. **breaks the property above** (a realistic bug a developer could plausibly introduce while
   refactoring, optimising or adding a feature),
2. still imports/compiles, and **still passes the existing test suite**: run
   `/tmp/wt/tools/baseline.sh {wt}` and make sure it prints `BASELINE-OK`
   (11 tests fail on the pristine tree already; they are ignored by the script; some tests are
   randomised, so run it twice),
3. needs **something specific to manifest** - NOT something any ordinary use of the library
   would trip over at once.  {emph}
   Avoid changes that merely alter error message text, comments, logging or `__repr__`.
4. is different in kind from the other seed AND from these changes, which other people have
   already tried (do not repeat them, and do not just move them to a sibling line):
{tried}

For each seed n = 1, 2 write these files:

* `{wt}/seeds/n/patch.diff` - output of `git -C {wt} diff -- src` with only that seed applied
  (must apply cleanly with `git apply` to a pristine checkout);
* `{wt}/seeds/n/demo.py` - a small standalone program using only the public h2 API (plus
  hyperframe/hpack to build or parse frames if needed) that **exits 0 on the pristine tree and
  exits 1 (printing what went wrong) with the seed applied**. It is run as
  `PYTHONPATH={wt}/src /venv/bin/python {wt}/seeds/n/demo.py`;
* `{wt}/seeds/n/meta.json` - `{{"property": "{pid}", "summary": "...what was changed...",
  "needs": "...what specific input/sequence/state it needs to manifest...",
  "files": ["src/h2/..."]}}`.

Verify each seed yourself: demo exits 0 without the patch, exits 1 with it, and
`/tmp/wt/tools/baseline.sh {wt}` prints BASELINE-OK with it applied.
When finished, restore the worktree sources (`git -C {wt} checkout -- src test`) so that only
the untracked `seeds/` directory remains. Python to use: `/venv/bin/python` (has pytest,
hyperframe, hpack, hypothesis). There is no network access.

Your final message: 3-6 lines per seed (what it changes, what it needs to manifest), nothing else.
""".format(wt=wt, pid=pid, title=p.get('title', ''),
           statement=(p.get('statement') or p.get('description') or '').strip(),
           quant=((p.get('quantifier') or {}).get('text') or '').strip(),
           emph=EMPH.get(rnd, ''), tried='\n'.join(tried))
    open('/tmp/wt/tasks/R%s_%s.md' % (rnd, pid), 'w').write(text)
print('tasks for round', rnd, 'written')
