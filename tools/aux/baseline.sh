#!/bin/bash
# usage: baseline.sh <worktree>   -- runs the repository's test suite against <worktree>/src
# prints BASELINE-OK when exactly the same tests pass as on the pristine tree
# (1403 pass; 11 tests fail on the pristine tree already and are ignored).
WT=$(realpath "$1")
cd "$WT" || exit 2
OUT=$(PYTHONPATH=$WT/src /venv/bin/python -m pytest -q -p no:cacheprovider --timeout=900 2>&1)
echo "$OUT" | tail -3
NEW=$(echo "$OUT" | grep -E '^(FAILED|ERROR)' | sed 's/ - .*//' | sort | comm -23 - /tmp/wt/tools/known_failures.txt)
PASSED=$(echo "$OUT" | tail -1 | grep -oE '[0-9]+ passed' | grep -oE '[0-9]+')
if [ -z "$NEW" ] && [ "$PASSED" = "1403" ]; then echo BASELINE-OK; exit 0; fi
echo "BASELINE-BROKEN: newly failing tests:"; echo "$NEW"; exit 1
