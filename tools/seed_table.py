#!/usr/bin/env python3
"""Regenerates the seed table at the end of DESIGN.md from seeded/RESULTS.json + meta.json."""
import json, os
ROOT = '/verif'
res = json.load(open(ROOT + '/seeded/RESULTS.json'))
rows = ['| seed | what it changes | needs | check | result | first violating clause |', '|---|---|---|---|---|---|']
for s in sorted(os.listdir(ROOT + '/seeded')):
    d = ROOT + '/seeded/' + s
    if not os.path.isdir(d):
        continue
    meta = json.load(open(d + '/meta.json'))
    r = res.get(s, {})
    fv = (r.get('first_violation') or {})
    def cut(x, n):
        x = ' '.join(str(x).split()).replace('|', '/')
        return x if len(x) <= n else x[:n - 1] + '…'
    rows.append('| %s | %s | %s | %s %s | %s | `%s` |' % (
        s, cut(meta.get('summary', ''), 150), cut(meta.get('needs', ''), 110),
        r.get('property', s.split('-')[0]), r.get('tier', ''),
        'caught (exit 1)' if r.get('detected') else ('exit %s' % r.get('exit')),
        cut(fv.get('clause', ''), 80)))
text = open(ROOT + '/DESIGN.md').read()
marker = '<!-- SEED-TABLE -->'
head = text[:text.index(marker) + len(marker)]
open(ROOT + '/DESIGN.md', 'w').write(head + '\n\n' + '\n'.join(rows) + '\n')
print(len(rows) - 2, 'rows;', sum(1 for s in res.values() if s.get('detected')), 'caught')
