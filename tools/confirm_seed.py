#!/usr/bin/env python3
"""tools/confirm_seed.py <ID> : confirm the seeds a sub-agent left in /tmp/wt/<ID>/seeds/*
in a fresh scratch worktree (demo passes without / fails with the patch, baseline suite still
passes with it) and copy the confirmed ones to /verif/seeded/<ID>-<n>/."""
import json, os, shutil, subprocess, sys

def sh(cmd, **k):
    return subprocess.run(cmd, shell=True, capture_output=True, text=True, **k)

def main(pid, prefix='', offset=0):
    src = '/tmp/wt/%s%s/seeds' % (prefix, pid)
    if not os.path.isdir(src):
        print("no seeds dir for", pid); return
    for n in sorted(os.listdir(src)):
        d = os.path.join(src, n)
        patch = os.path.join(d, 'patch.diff'); demo = os.path.join(d, 'demo.py')
        if not (os.path.exists(patch) and os.path.exists(demo)):
            print(pid, n, "incomplete"); continue
        wt = '/tmp/wt/confirm_%s_%s' % (pid, n)
        sh('git -C /repo worktree remove --force %s' % wt)
        r = sh('git -C /repo worktree add --detach -q %s HEAD' % wt)
        if r.returncode: print(r.stderr); continue
        try:
            env = dict(os.environ, PYTHONPATH=wt + '/src')
            r0 = sh('/venv/bin/python %s' % demo, env=env, timeout=600)
            ap = sh('git -C %s apply %s' % (wt, patch))
            if ap.returncode:
                print(pid, n, "patch does not apply:", ap.stderr[:200]); continue
            r1 = sh('/venv/bin/python %s' % demo, env=env, timeout=600)
            bl = sh('/tmp/wt/tools/baseline.sh %s' % wt, timeout=1200)
            ok = (r0.returncode == 0 and r1.returncode != 0 and 'BASELINE-OK' in bl.stdout)
            print(pid, n, 'demo pristine rc=%d, seeded rc=%d, baseline=%s -> %s' % (
                r0.returncode, r1.returncode, 'OK' if 'BASELINE-OK' in bl.stdout else 'BROKEN',
                'CONFIRMED' if ok else 'REJECTED'))
            if not ok:
                print('   ', (r0.stdout + r0.stderr)[-300:], '|', (r1.stdout + r1.stderr)[-300:], '|', bl.stdout[-300:])
                continue
            dst = '/verif/seeded/%s-%s' % (pid, int(n) + offset)
            os.makedirs(dst, exist_ok=True)
            shutil.copy(patch, dst + '/patch.diff'); shutil.copy(demo, dst + '/demo.py')
            try:
                meta = json.load(open(os.path.join(d, 'meta.json')))
            except Exception as e:
                meta = {'property': pid, 'summary': '(meta.json unreadable: %s)' % e}
            meta['property'] = pid
            meta['confirmed'] = {
                'how': 'fresh git worktree of /repo HEAD outside /repo and /verif; '
                       'PYTHONPATH=<wt>/src /venv/bin/python demo.py before and after git apply; '
                       'full test suite via pytest with the patch applied',
                'demo_rc_pristine': r0.returncode, 'demo_rc_seeded': r1.returncode,
                'demo_output_seeded': (r1.stdout + r1.stderr)[-400:],
                'suite': '1403 passed (same 11 pre-existing failures as pristine)'}
            json.dump(meta, open(dst + '/meta.json', 'w'), indent=1)
        finally:
            sh('git -C /repo worktree remove --force %s' % wt)

args = sys.argv[1:]
prefix, offset = '', 0
if args and args[0] == '--round2':
    prefix, offset = 'R2_', 2
    args = args[1:]
elif args and args[0] == '--round':
    n = int(args[1])
    prefix, offset = 'R%d_' % n, 2 * (n - 1)
    args = args[2:]
for pid in args:
    main(pid, prefix, offset)
