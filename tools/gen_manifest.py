#!/usr/bin/env python3
"""Regenerates /verif/MANIFEST.json from the table below (single source of truth)."""
import json
import os

ROOT = os.path.dirname(os.path.dirname(os.path.abspath(__file__)))

TRUST = ("CrossHair 0.0.110's Python semantics + z3 5.1 (every counterexample and a sample of "
         "confirmed paths per shard are re-run natively against real hyperframe/hpack); the "
         "environment models named in the evidence (validated against the real dependency at "
         "every run); bounds listed in the evidence 'bounds'/'outside_claim'.")

# id -> (technique, level text, design ref)
CLAIMED = {
    'C12': ("symbolic execution of h2.settings._validate_setting and the three entry routes "
            "(CrossHair/z3), all ids 0..65535 x all values, exhaustive path sets",
            "Every feasible path of the real validation code is visited with the setting id and "
            "value as solver variables and compared with the RFC 7540 6.5.2 / RFC 8441 table; "
            "the receive / update_settings / initial_values routes and the window-overflow rule "
            "are decided the same way per known id.  Bounded only by 'one or two settings per "
            "frame'.", "7/C12"),
    'C03': ("symbolic one-step induction over the real send_data / end_stream / WINDOW_UPDATE / "
            "SETTINGS code from an arbitrary integer pre-state (CrossHair/z3), plus an API-only "
            "multi-step twin",
            "Windows, MAX_FRAME_SIZE, payload length, padding, increments and INITIAL_WINDOW_SIZE "
            "values are solver variables; each step's path set is exhausted and compared with a "
            "ghost 'window the peer granted'; induction on that invariant covers histories of any "
            "length over 2(+1) streams.", "7/C03"),
    'C04': ("symbolic one-step induction over the real inbound flow-control code "
            "(_receive_data_frame, WindowManager, increment/acknowledge, settings ACK) from an "
            "arbitrary window-manager pre-state (CrossHair/z3)",
            "Every integer of both window managers, DATA length/padding, increment and "
            "acknowledged sizes and old/new INITIAL_WINDOW_SIZE are solver variables; the ghost "
            "'advertised window' is computed from the frames actually emitted.", "7/C04"),
    'C05': ("symbolic one-step induction over the real WindowManager and its connection glue "
            "from an arbitrary state satisfying a stated inductive invariant (CrossHair/z3); "
            "liveness decided as a state predicate",
            "cur/max/processed/unacknowledged are solver variables constrained only by the "
            "inductive invariant (re-proved by every step), in two worlds: acknowledge-only "
            "applications and applications that also increment windows manually; each step (DATA, "
            "acknowledge, manual increment, DATA on closed/reset streams, settings ACK incl. a "
            "reserved stream) is exhausted; 'U == 0 and max > 0 implies cur > "
            "0' replaces the unbounded-history liveness quantifier.", "7/C05"),
    'C26': ("symbolic execution of ping() and _receive_ping_frame over 1-3 PING frames with "
            "symbolic ACK flags and solver-chosen (equal or different) payloads, and of ping() "
            "after solver-chosen PING history (CrossHair/z3)",
            "ACK flags, which PINGs repeat a payload, ping() payload length, the history before "
            "ping() and the mix with other frames are solver variables / enumerated shards; the "
            "answer list is read from the output buffer in buffer order (identical frames map to "
            "identical bytes in the serialisation model).",
            "7/C26"),
    'C23': ("symbolic execution of prioritize / send_headers(priority_*) / _receive_priority_frame "
            "with weight, dependency, exclusive flag and target stream id as solver variables; "
            "sender frame is handed to a real receiver; generic state snapshot compared "
            "before/after",
            "All weights (incl. out of range), dependency ids, flags and target ids 1..2^31-1; "
            "round trip client -> frame -> server event; 'changes no state' is decided by a "
            "generic object-graph snapshot equality.", "7/C23"),
    'C09': ("symbolic execution of stream-id allocation and checking with stream ids, promised "
            "ids and both high-water marks as solver variables over a hash-free map standing in "
            "for conn.streams; how forgotten streams closed is a solver choice",
            "All ids up to 2^31-1 and all high-water marks; acceptance, the least-free-id rule, "
            "exhaustion, and the error class (stream error / STREAM_CLOSED / PROTOCOL_ERROR) for "
            "unusable peer ids are compared with an RFC 7540 5.1.1 predicate.", "7/C09"),
    'C27': ("symbolic one-step non-growth checks: non-opening frames on symbolic stream ids over "
            "hash-free maps, SizeLimitDict with symbolic limit, the CONTINUATION backlog around "
            "its limit, and the acknowledged MAX_HEADER_LIST_SIZE (symbolic) reaching the decoder",
            "Induction replaces the 'hundreds of thousands of frames' quantifier: from an "
            "arbitrary state one more frame never grows streams / closed-stream memory / header "
            "buffer beyond its cap; every path set is exhausted.", "7/C27"),
    'C16': ("symbolic one-step induction on (content-length N, bytes so far A) through the real "
            "receive_data/receive_headers/_track_content_length code; END_STREAM placement and "
            "no-content response kinds enumerated",
            "N, A, DATA length, padding and END_STREAM are solver variables; the verdict "
            "(accepted iff total == N, bodiless responses refused iff payload > 0) is compared on "
            "every path.", "7/C16"),
    'C06': ("catalogue of witness histories (native BFS to closure on the one-stream slice) + one "
            "symbolic step per entry and operation under CrossHair/z3; outcome class compared "
            "with an independent RFC 7540 5.1 tracker/oracle; library stream state compared "
            "with the tracker; successor-in-catalogue closure check",
            "Every catalogue entry x every operation of the alphabet with symbolic numeric "
            "arguments; when the catalogue is closed (thorough tier, one-stream slice) every "
            "finite history over that slice ends in a checked entry.  Push / two-stream / "
            "upgrade slices are depth-bounded (depth in evidence).", "7/C06"),
    'C07': ("same catalogue + symbolic step engine, peer-frame alphabet only; an event-grammar "
            "monitor that sees only returned event objects decides the per-stream message "
            "grammar, role rule and related-event fields",
            "All peer frames (legal or not) from every catalogue entry; monitor state is part of "
            "the catalogue key, so closure covers monitor states too.", "7/C07"),
    'C08': ("catalogue + symbolic step engine, public-API alphabet only (default and "
            "validation-off configurations); a sender-side message grammar is judged on the "
            "frames actually emitted against the observer state before the call",
            "Every catalogue entry (new, inbound, pushed, upgraded streams) x every API operation; "
            "role rules (client: only request HEADERS open streams, no push / alt-svc; server: no "
            "HEADERS-opened streams, no PRIORITY) and the per-stream grammar info* final DATA* "
            "trailers.", "7/C08"),
    'C19': ("every shallow catalogue entry closed by each route (GOAWAY sent, GOAWAY received, "
            "connection error), then one symbolic operation from the full API + frame alphabet "
            "with symbolic window-manager content",
            "Only GOAWAY frames may be emitted; every frame-producing or stream-opening call "
            "must raise ProtocolError; received GOAWAY empties the pending output.", "7/C19"),
    'C20': ("every catalogue state with a live stream is reset by the application (or a push "
            "refused by the library), optionally collected, then 1-2 racing peer frames chosen "
            "by the solver with symbolic numeric fields are executed symbolically",
            "No connection error, no event for the reset / refused stream, DATA's whole "
            "flow-controlled length returned to the connection window, one HPACK decode per "
            "header block; racing = legal for the peer before it saw the reset.", "7/C20"),
    'C22': ("push_stream / received PUSH_PROMISE executed symbolically from every distinct "
            "observer state of the catalogue x ENABLE_PUSH value (current and pending), parent "
            "and promised ids chosen by the solver",
            "Success condition of the statement as a predicate over the observer state; "
            "PushedStreamReceived fields; the promised stream refuses a request; recursive pushes "
            "refused on both ends.", "7/C22"),
    'C24': ("advertise_alternative_service / received ALTSVC executed symbolically from every "
            "distinct observer state of the catalogue with solver-chosen stream id, origin and "
            "field",
            "RFC 7838 rules of the statement as predicates over the observer state; argument "
            "validation; events and their origin.", "7/C24"),
    'C10': ("catalogue + symbolic step engine comparing open_outbound/inbound_streams with the "
            "observer's RFC 5.1.2 count after every step; separate limit harnesses with "
            "MAX_CONCURRENT_STREAMS (current and pending) as solver variables over 0-3 existing "
            "streams in every state, including reserved (pushed) streams being opened",
            "count + 1 > limit is decided by the solver for all limit values 0..2^32-1; opening "
            "sends / received HEADERS are refused iff over the limit in force (acknowledged "
            "local limit for inbound).", "7/C10"),
    'C29': ("every public call executed symbolically from every distinct observer state of the "
            "catalogue with a symbolic stream id (hash-free stream map) and symbolic / "
            "solver-chosen arguments, including out-of-range values",
            "Outcome is success, an h2 exception or ValueError/TypeError; StreamClosedError vs "
            "NoSuchStreamError decided against the high-water marks; a raising call leaves the "
            "output buffer untouched.", "7/C29"),
    'C18': ("whenever a symbolic step of the catalogue engine (peer-frame alphabet) raises, the "
            "GOAWAY rule is checked and the code compared with the C06 oracle; plus one symbolic "
            "harness per violation category (frame size vs symbolic MAX_FRAME_SIZE, parser "
            "failure as a solver choice, window violations, HPACK failure as a solver choice)",
            "Exactly one GOAWAY, code == exception code == category code, last-stream-id == "
            "highest peer-opened id and never changing after the first GOAWAY.", "7/C18"),
    'C11': ("symbolic execution of received SETTINGS (every single id / pair of ids, symbolic "
            "values) and of update_settings / ACK programs (two frames in flight, optionally "
            "before the initial ACK) against a FIFO-of-frames oracle; enforcement points read "
            "back after every ACK",
            "All values 0..2^32-1; exactly one RemoteSettingsChanged + one ACK per received "
            "frame, in order; k-th ACK applies and reports exactly the k-th frame; a raising "
            "update_settings leaves nothing pending.", "7/C11"),
    'C25': ("symbolic execution of initiate_upgrade_connection on both sides with the seven client "
            "settings as solver variables (HTTP2-Settings token modelled as the identity on the "
            "settings mapping, validated against the real serialiser/base64), then solver-chosen "
            "continuations on stream 1; longer continuations through the 'upgrade' catalogue slice",
            "Server view of the client settings and every derived enforcement point equal the "
            "client's local settings for all values; stream 1 half-closed on both sides; next ids "
            "3 / 2; GOAWAY last-stream-id; late frames on stream 1.", "7/C25"),
    'C15': ("symbolic execution of the real inbound pipeline (receive_headers, validate_headers, "
            "cookie joining, decoding) on header blocks containing a field whose name and value "
            "are strings of solver variables (CellBytes: every cell 0..255), compared with an "
            "independent branch-free RFC 7540 8.1.2 predicate",
            "delivered <=> conformant for every byte content of the symbolic field at every "
            "position, in every block position and inbound configuration; delivered list == "
            "decoded block (cookies joined last, text when header_encoding is set).", "7/C15"),
    'C14': ("symbolic execution of the real outbound pipeline (send_headers / push_stream -> "
            "normalize_outbound_headers -> validate_outbound_headers -> encoder) on header lists "
            "containing a field whose name and value are strings of solver variables; the list "
            "shown to a recording encoder is compared with an independent normalisation + "
            "RFC 7540 8.1.2 predicate",
            "emitted <=> (normalised input conformant); emitted block == normalised input with "
            "never-indexed marking; lower-case / trimmed / no connection-specific fields checked "
            "directly on what was emitted; each normalise/validate combination only for the "
            "rules it promises.", "7/C14"),
    'C13': ("send_headers / push_stream executed symbolically from every distinct observer state "
            "(solver-chosen block kind, end_stream, priority arguments incl. invalid ones) and "
            "with a fully symbolic trailing field, against an encoder model that records every "
            "field at the moment it is pulled from the lazy pipeline; HEADER_TABLE_SIZE symbolic",
            "A raising call has shown nothing to the encoder and not resized its table; a "
            "succeeding call calls it exactly once; the peer's HEADER_TABLE_SIZE reaches the "
            "encoder for every value and setting combination.", "7/C13"),
    'C02': ("symbolic execution of header-block fragmentation with the peer's MAX_FRAME_SIZE and "
            "the encoded block length as solver variables; of the frame-size limit after received "
            "SETTINGS; of initiate_connection / close_connection; and of every public call from "
            "every catalogue entry with the appended frames compared field by field",
            "No frame payload exceeds M for all M in 2^14..2^24-1 and all block lengths up to 3M; "
            "blocks are contiguous with END_HEADERS only on the last fragment; each successful "
            "call appends exactly the frames it specifies.", "7/C02"),
    'C17': ("compositional symbolic execution: every catalogue entry x every peer frame (incl. "
            "padded / priority-flagged variants, three configurations), decoder outputs with a "
            "fully symbolic field or any hpack exception, every parser failure the real "
            "FrameBuffer reports, CONTINUATION chains around the limit; the only check is the "
            "class of the exception leaving receive_data",
            "For every behaviour the hyperframe / hpack contracts allow, h2's own code raises "
            "only ProtocolError (or returns events); all field values, lengths and header bytes "
            "within the stated bounds.", "7/C17"),
    'C21': ("the real FrameBuffer / receive_data executed symbolically on an abstract wire "
            "(frames with symbolic body lengths and solver-chosen parse outcomes) delivered whole "
            "and cut at two symbolic positions to two endpoints built from the same witness; real "
            "preface bytes cut at every position; data_to_send with solver-enumerated amounts",
            "Same error (type, code) or same events and same emitted frames for all body lengths "
            "0..2^24-1 and all cut positions; read amounts partition the output buffer.", "7/C21"),
    'C01': ("two real endpoints connected frame-by-frame: native BFS catalogue of quiescent pairs, "
            "then one symbolic call on either side (or a raising call followed by a peer call, or "
            "one call on each side crossing in flight) delivered to the peer and its reactions "
            "delivered back; plus pair harnesses with a symbolic INITIAL_WINDOW_SIZE / DATA "
            "length and with a fully symbolic header field through both pipelines",
            "Every successful send is accepted by the peer and reported with the events and "
            "fields the call specifies; raising calls contribute nothing; crossings do not break "
            "the connection.  Chunking is delegated to C21, header content to C13-C15.", "7/C01"),
}

NOT_YET = {}

NA = {
    'C28': "The quantified variable is the interpreter's hash seed / process identity, which "
           "cannot be made a solver variable in a symbolic execution of CPython code (hash() of "
           "bytes/str is computed by the interpreter; the only seed-dependent objects in h2 are "
           "builtin sets whose repr lands in exception messages). Deciding it needs separate "
           "interpreter runs, i.e. a different technique (DESIGN.md section 8).",
}


def main():
    props = [json.loads(l) for l in open(os.path.join(ROOT, 'properties.jsonl'))]
    checks = []
    na = []
    for p in props:
        pid = p['id']
        if pid in CLAIMED:
            tech, text, ref = CLAIMED[pid]
            checks.append({
                'property_id': pid,
                'quick_cmd': './check %s --tier quick' % pid,
                'thorough_cmd': './check %s --tier thorough' % pid,
                'evidence_file': 'evidence/%s.json' % pid,
                'replay_cmd_template': './check %s --replay {path}' % pid,
                'engine': 'crosshair-h2',
                'level_claimed': {'category': 'model_checking', 'text': text,
                                  'design_ref': 'DESIGN.md section ' + ref},
                'level_note': TRUST,
                'technique': tech,
            })
        elif pid in NA:
            na.append({'property_id': pid, 'reason': NA[pid]})
        else:
            na.append({'property_id': pid, 'reason': NOT_YET.get(
                pid, 'check not built yet in this round (planned: DESIGN.md section 7); '
                     'not claimed until its harness runs clean')})
    man = {
        'version': 1,
        'setup_cmd': './setup.sh',
        'hooks': {
            'guard': 'H2_VERIF',
            'enable': 'no source hooks are needed: the checks import /repo/src/h2 as is and '
                      'install their environment models through CrossHair\'s patch registry',
            'baseline_off_cmd': 'cd /repo && /venv/bin/python -m pytest -ra -q -p no:cacheprovider '
                                '--timeout=900 --continue-on-collection-errors',
            'source_commits': [],
            'add_only': True,
        },
        'engines': [{
            'name': 'crosshair-h2', 'path': 'engine/',
            'serves_properties': sorted(CLAIMED),
            'kind_free_text': 'symbolic execution of the real h2 functions under crosshair-tool '
                              '0.0.110 / z3 5.1 with our own path-exploration loop '
                              '(engine/core.py), sharded over 16 processes (engine/runner.py); '
                              'native replay of every solver model',
        }],
        'checks': checks,
        'not_applicable': na,
        'notes': 'exit codes: 0 ok, 1 VIOLATION (replayed natively), 3 harness error '
                 '(never a finding). See DESIGN.md.',
    }
    with open(os.path.join(ROOT, 'MANIFEST.json'), 'w') as f:
        json.dump(man, f, indent=1)
    print("MANIFEST.json: %d checks, %d not_applicable" % (len(checks), len(na)))


if __name__ == '__main__':
    main()
