#!/bin/bash
# tools/run_all.sh <tier> [ids...] : run every claimed check, print one summary line each
cd "$(dirname "$0")/.."
TIER=${1:-quick}; shift
IDS=${@:-$(python3 -c "import json;print(' '.join(c['property_id'] for c in json.load(open('MANIFEST.json'))['checks']))")}
for p in $IDS; do
  S=$(date +%s)
  OUT=$(./check $p --tier $TIER 2>&1); RC=$?
  E=$(( $(date +%s) - S ))
  echo "$p rc=$RC ${E}s $(echo "$OUT" | grep -E "^$p tier" | cut -c1-160)"
  echo "$OUT" | grep -E "^(VIOLATION|INCONCLUSIVE|HARNESS-ERROR)" | cut -c1-220 | head -5
done
