#!/bin/bash
# tools/rebase_seed.sh <seed-dir-name>: re-create seeded/<name>/patch.diff against /repo HEAD with a 3-way apply
S=/verif/seeded/$1
WT=/tmp/wt/rebase_$1
git -C /repo worktree remove --force $WT 2>/dev/null
git -C /repo worktree add --detach -q $WT HEAD || exit 2
cd $WT
if git apply --check $S/patch.diff 2>/dev/null; then echo "$1: applies cleanly"; else
  if git apply --3way $S/patch.diff 2>&1 | tail -2 && ! git diff --name-only --diff-filter=U | grep -q .; then
    git reset -q; git diff -- src > $S/patch.diff.new
    env PYTHONPATH=$WT/src /venv/bin/python $S/demo.py >/dev/null 2>&1; rc=$?
    if [ $rc -ne 0 ]; then mv $S/patch.diff.new $S/patch.diff; echo "$1: rebased (demo rc=$rc with seed)"; else rm $S/patch.diff.new; echo "$1: rebased patch no longer breaks demo"; fi
  else echo "$1: 3-way failed"; fi
fi
cd /; git -C /repo worktree remove --force $WT
