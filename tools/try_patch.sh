#!/bin/bash
# tools/try_patch.sh <patch-file> <check args...> : apply patch to /repo, run ./check, always revert.
P=$(realpath "$1"); shift
cd /verif
git -C /repo apply "$P" || { echo "patch does not apply"; exit 2; }
trap 'git -C /repo checkout -- . ' EXIT
./check "$@"
echo "exit=$?"
