#!/usr/bin/env python3
"""tools/run_seeds.py [--tier quick] [--own-only] [SEED ...]
Runs the check of each seed's property against a scratch worktree of /repo HEAD with the seed
applied (VERIF_REPO), records exit code and first violation in seeded/RESULTS.json."""
import json, os, re, subprocess, sys, time

ROOT = '/verif'
tier = 'quick'
args = [a for a in sys.argv[1:] if not a.startswith('--')]
if '--tier' in sys.argv:
    tier = sys.argv[sys.argv.index('--tier') + 1]
    args = [a for a in args if a != tier]
seeds = args or sorted(os.listdir(ROOT + '/seeded'))
seeds = [s for s in seeds if os.path.isdir(ROOT + '/seeded/' + s)]
resf = ROOT + '/seeded/RESULTS.json'
if '--results' in sys.argv:
    resf = sys.argv[sys.argv.index('--results') + 1]
    seeds = [s for s in seeds if s != resf]
res = {}


def save(key, val):
    # merge-on-write so that two concurrent runs do not clobber each other
    cur = json.load(open(resf)) if os.path.exists(resf) else {}
    cur[key] = val
    json.dump(cur, open(resf, 'w'), indent=1, sort_keys=True)
head = subprocess.check_output(['git', '-C', '/repo', 'log', '--format=%h', '-1']).decode().strip()
for s in seeds:
    pid = s.split('-')[0]
    wt = '/tmp/wt/seedrun_' + s
    subprocess.run('git -C /repo worktree remove --force %s' % wt, shell=True, capture_output=True)
    subprocess.check_call('git -C /repo worktree add --detach -q %s HEAD' % wt, shell=True)
    try:
        ap = subprocess.run(['git', '-C', wt, 'apply', '%s/seeded/%s/patch.diff' % (ROOT, s)],
                            capture_output=True, text=True)
        if ap.returncode:
            save(s, {'status': 'patch-does-not-apply', 'repo': head})
            print(s, 'PATCH DOES NOT APPLY')
            continue
        t0 = time.time()
        env = dict(os.environ, VERIF_REPO=wt, VERIF_OUT=wt + '/.verif_out')
        r = subprocess.run(['./check', pid, '--tier', tier], cwd=ROOT, env=env,
                           capture_output=True, text=True)
        m = re.search(r'VIOLATION property=\S+ replay=\S+\n\s+shard=(\S+) clause=(\S+)', r.stdout)
        res[s] = {'property': pid, 'tier': tier, 'exit': r.returncode,
                  'detected': r.returncode == 1,
                  'first_violation': {'shard': m.group(1), 'clause': m.group(2)} if m else None,
                  'wall_s': round(time.time() - t0, 1), 'repo': head}
        save(s, res[s])
        print(s, 'exit=%d' % r.returncode, (m.group(2)[:90] if m else ''), '%.0fs' % (time.time() - t0),
              flush=True)
    finally:
        subprocess.run('git -C /repo worktree remove --force %s' % wt, shell=True,
                       capture_output=True)
