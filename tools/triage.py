import json,glob,collections,sys
pid=sys.argv[1]
seen=collections.OrderedDict(); cnt=collections.Counter()
for p in sorted(glob.glob('/verif/replays/%s/*.json'%pid), key=lambda x:int(x.split('/')[-1][:-5])):
    r=json.load(open(p))
    for cl in r['clause'].split('+'):
        cnt[cl]+=1
        if cl in seen: continue
        seen[cl]=(r['shard'], (r['native_detail'] or '')[:int(sys.argv[2]) if len(sys.argv)>2 else 300], r['params'].get('history'), r['model'])
for k,(s,d,h,m) in seen.items():
    print(cnt[k], k, '|', s, h, m); print('    ', d)
