"""Shard runner: explores every shard of a property on all cores, replays
counterexamples natively, matches known findings, writes evidence."""
import hashlib
import importlib
import inspect
import json
import multiprocessing as mp
import os
import re
import signal
import sys
import time
import traceback

ROOT = os.path.dirname(os.path.dirname(os.path.abspath(__file__)))
# evidence and replay files go to /verif unless a seeded-change run redirects them (the
# evidence committed in /verif only ever comes from runs against /repo itself)
OUT_ROOT = os.environ.get('VERIF_OUT') or ROOT
EXIT_OK, EXIT_VIOLATION, EXIT_HARNESS = 0, 1, 3


class Shard:
    def __init__(self, name, fn, budget=40.0, expect=(), params=None, twin=True,
                 per_path_timeout=20.0, replay=None, max_cex=6):
        self.name = name
        self.fn = fn
        self.budget = budget
        self.expect = tuple(expect)      # note labels that must be reached (vacuity)
        self.params = params or {}
        self.twin = twin
        self.per_path_timeout = per_path_timeout
        self.replay = replay             # optional: API-only replay(model) -> (reproduced, info)
        self.max_cex = max_cex


_SHARDS = []
_H2_FUNCS = {}


def _profile(frame, event, arg):
    if event == 'call':
        co = frame.f_code
        fn = co.co_filename
        if '/src/h2/' in fn:
            _H2_FUNCS[(fn, co.co_firstlineno, co.co_qualname)] = True


class _HardTimeout(BaseException):
    pass


def _alarm(_sig, _frm):
    raise _HardTimeout()


def _run_shard(idx):
    from . import core
    sh = _SHARDS[idx]
    out = {'name': sh.name, 'params': sh.params, 'status': 'error', 'reason': '',
           'native_ok': 0, 'native_bad': [], 'twin': None, 'funcs': []}
    signal.signal(signal.SIGALRM, _alarm)
    signal.alarm(int(sh.budget * 2.5) + 60)
    try:
        t0 = time.perf_counter()
        _H2_FUNCS.clear()
        # native baseline run (default model): the harness itself must pass natively
        ok, clause, detail, notes = core.run_native(sh.fn, {}, profile=_profile)
        out['native_default'] = {'ok': ok, 'clause': clause, 'notes': notes,
                                 'detail': detail if not ok else None}
        res = core.explore(sh.fn, budget_s=sh.budget,
                           per_path_timeout=sh.per_path_timeout, max_cex=sh.max_cex)
        d = res.as_dict()
        out.update({k: d[k] for k in (
            'status', 'reason', 'paths', 'confirmed_paths', 'refuted_paths',
            'unknown_paths', 'ignored_paths', 'outcomes', 'queries', 'solver_s',
            'exhausted', 'tb')})
        out['samples'] = d['samples']
        # differential validation of sampled confirmed paths: the same model run
        # natively (real hyperframe/hpack, no tracer) must pass with the same notes
        for s in res.samples:
            ok, clause, detail, notes = core.run_native(sh.fn, s['model'], profile=_profile)
            if ok and notes == s['notes']:
                out['native_ok'] += 1
            else:
                out['native_bad'].append({'model': s['model'], 'sym_notes': s['notes'],
                                          'native_notes': notes, 'clause': clause,
                                          'detail': detail})
        # counterexamples: replay natively
        cexs = []
        for c in res.cex:
            ok, clause, detail, notes = core.run_native(sh.fn, c['model'], profile=_profile)
            c = dict(c)
            c['native_clause'] = clause
            c['native_detail'] = detail
            # the native run (real hyperframe/hpack, no tracer) is the ground truth: the
            # counterexample reproduces iff that run violates too; its clause set is the
            # one reported and matched against known findings
            c['reproduced'] = (not ok)
            if not ok:
                c['sym_clause'] = c['clause']
                c['clause'] = clause
            if sh.replay is not None and c['reproduced']:
                try:
                    rep, info = sh.replay(c['model'])
                    c['api_replay'] = {'reproduced': bool(rep), 'info': info}
                except Exception:
                    c['api_replay'] = {'reproduced': False,
                                       'info': traceback.format_exc()[-500:]}
            cexs.append(c)
        out['cex'] = cexs
        # reachability twin: same body + assert False must be violated, and must replay
        if sh.twin and out['status'] in ('confirmed', 'refuted'):
            def twin():
                sh.fn()
                core.fail_now('twin-reached')
            tr = core.explore(twin, budget_s=min(20.0, sh.budget), max_cex=1)
            tw = {'status': tr.status, 'paths': tr.paths}
            hit = [c for c in tr.cex if 'twin-reached' in c['clause']]
            if hit:
                ok, clause, _d, _n = core.run_native(twin, hit[0]['model'])
                tw['replayed'] = (not ok) and ('twin-reached' in (clause or ''))
            else:
                tw['replayed'] = False
            out['twin'] = tw
            out['queries'] += tr.queries
            out['solver_s'] += tr.solver_s
        missing = [e for e in sh.expect
                   if not any(e in k.split('|') for k in out.get('outcomes', {}))]
        out['missing_expected'] = missing
        out['funcs'] = sorted(_H2_FUNCS)
        out['wall_s'] = time.perf_counter() - t0
    except _HardTimeout:
        out['status'] = 'inconclusive'
        out['reason'] = 'hard timeout'
    except BaseException:
        out['status'] = 'error'
        out['reason'] = traceback.format_exc()[-1200:]
    finally:
        signal.alarm(0)
    return out


def _func_hashes(funcs):
    """(filename, firstlineno, qualname) -> name + sha256 of current source."""
    out = {}
    cache = {}
    for fn, line, qual in funcs:
        try:
            if fn not in cache:
                cache[fn] = open(fn).read().splitlines(True)
            lines = cache[fn]
            block = inspect.getblock(lines[line - 1:])
            h = hashlib.sha256("".join(block).encode()).hexdigest()[:16]
        except Exception:
            h = '?'
        mod = 'h2.' + os.path.basename(fn)[:-3]
        out[mod + '.' + qual] = h
    return out


def load_known():
    p = os.path.join(ROOT, 'known_findings.json')
    if not os.path.exists(p):
        return []
    return json.load(open(p))


def match_known(known, prop, shard_name, cex):
    """A counterexample is a known finding iff EVERY failing clause on the path is
    covered by an open entry for this property whose shard pattern (and optional
    model constraints) match."""
    clauses = cex['clause'].split('+')
    hits = []
    for cl in clauses:
        found = None
        for k in known:
            if k.get('status') != 'open' or k['property'] != prop:
                continue
            if not any(re.fullmatch(pat, cl) for pat in k['clauses']):
                continue
            if not re.fullmatch(k.get('shard', '.*'), shard_name):
                continue
            okm = True
            for name, want in k.get('model', {}).items():
                have = cex['model'].get(name)
                if isinstance(want, dict):
                    if have is None or ('min' in want and have < want['min']) or \
                            ('max' in want and have > want['max']):
                        okm = False
                elif have != want:
                    okm = False
            if okm:
                found = k
                break
        if found is None:
            return None
        hits.append(found)
    return hits


def run_property(prop_id, tier, seed, jobs=None, only=None, verbose=False):
    global _SHARDS
    t0 = time.perf_counter()
    mod = importlib.import_module('props.' + prop_id.lower())
    from . import validate
    val = validate.run_for(mod)      # model validations (may raise HarnessError)
    shards = mod.shards(tier, seed)
    if only:
        shards = [s for s in shards if re.search(only, s.name)]
    _SHARDS = shards
    jobs = jobs or min(16, os.cpu_count() or 4)
    ctx = mp.get_context('fork')
    order = sorted(range(len(shards)), key=lambda i: -shards[i].budget)
    with ctx.Pool(min(jobs, max(1, len(shards))), maxtasksperchild=8) as pool:
        results = pool.map(_run_shard, order, chunksize=1)
    # a path can exceed its wall-clock allowance merely because all cores are busy: shards
    # that stopped on a timeout get one more, quieter, attempt (4 workers) before they are
    # reported as inconclusive
    again = [i for i, r in zip(order, results)
             if r['status'] == 'inconclusive' and ('imeout' in str(r.get('reason')) or
                                                   'budget' in str(r.get('reason')))]
    # (only when a few did: many timeouts are not a load artefact, and repeating them all
    # would double the run)
    if again and len(again) <= 8:
        with ctx.Pool(min(4, len(again)), maxtasksperchild=4) as pool:
            second = pool.map(_run_shard, again, chunksize=1)
        pos = dict((i, k) for k, i in enumerate(order))
        for i, r in zip(again, second):
            if r['status'] != 'inconclusive':
                r['retried'] = True
                results[pos[i]] = r
    results.sort(key=lambda r: r['name'])
    known = load_known()
    violations, known_hits, harness_errors, inconclusive = [], [], [], []
    rdir = os.path.join(OUT_ROOT, 'replays', prop_id)
    os.makedirs(rdir, exist_ok=True)
    for old_file in os.listdir(rdir):
        if old_file.endswith('.json'):
            os.unlink(os.path.join(rdir, old_file))
    nrep = 0
    funcs = {}
    for r in results:
        funcs.update(_func_hashes([tuple(f) for f in r.get('funcs', [])]))
        if r['status'] == 'error':
            harness_errors.append((r['name'], r['reason']))
            continue
        nd = r.get('native_default')
        if nd and not nd['ok'] and r['status'] != 'refuted':
            harness_errors.append((r['name'], 'native default run fails but symbolic run '
                                   'does not: %s' % (nd,)))
        if r['native_bad']:
            harness_errors.append((r['name'], 'symbolic/native disagreement: %s'
                                   % (r['native_bad'][:1],)))
        if r['status'] == 'inconclusive':
            inconclusive.append((r['name'], r['reason']))
        for c in r.get('cex', []):
            if not c['reproduced']:
                harness_errors.append((r['name'], 'counterexample does not reproduce '
                                       'natively: clause=%s native=%s model=%s tb=%s'
                                       % (c['clause'], c['native_clause'], c['model'],
                                          (c.get('tb') or '')[-700:])))
                continue
            hits = match_known(known, prop_id, r['name'], c)
            if hits is not None:
                for k in hits:
                    known_hits.append((k['id'], k['what'], r['name']))
                c['known'] = [k['id'] for k in hits]
                continue
            nrep += 1
            path = os.path.join(OUT_ROOT, 'replays', prop_id, '%d.json' % nrep)
            json.dump({'property': prop_id, 'shard': r['name'], 'params': r['params'],
                       'model': c['model'], 'clause': c['clause'], 'detail': c['detail'],
                       'native_detail': c['native_detail'], 'exc': c['exc'], 'tb': c['tb'],
                       'notes': c['notes'], 'api_replay': c.get('api_replay'),
                       'tier': tier, 'seed': seed},
                      open(path, 'w'), indent=1, default=str)
            violations.append((r['name'], c['clause'], path))
        if r['status'] in ('confirmed', 'refuted'):
            if r['status'] == 'confirmed' and r.get('twin') is not None and \
                    not r['twin'].get('replayed'):
                harness_errors.append((r['name'], 'reachability twin not violated: %s'
                                       % (r['twin'],)))
            if r.get('missing_expected') and r['status'] == 'confirmed':
                harness_errors.append((r['name'], 'expected outcome classes never '
                                       'reached: %s' % (r['missing_expected'],)))
    wall = time.perf_counter() - t0
    write_evidence(mod, prop_id, tier, seed, results, violations, known_hits,
                   harness_errors, inconclusive, funcs, val, wall)
    # every OPEN finding listed for this property is announced on every run: the ones a
    # shard of this run ran into, and the ones whose stand-alone reproduction script
    # (findings/<id>.py, public API + real hyperframe/hpack only) still reproduces
    announced = {}
    for (kid, what, _shard) in known_hits:
        announced[kid] = what
    for k in known:
        if k.get('status') == 'open' and k['property'] == prop_id and k['id'] not in announced:
            rp = k.get('repro')
            if rp and os.path.exists(os.path.join(ROOT, rp)):
                import subprocess
                r = subprocess.run([sys.executable, os.path.join(ROOT, rp)],
                                   capture_output=True, text=True, timeout=120)
                if r.returncode == 1:
                    announced[k['id']] = k['what'] + ' (reproduction script %s)' % rp
    for kid in sorted(announced):
        print("KNOWN-FINDING: property=%s %s [%s]" % (prop_id, announced[kid], kid))
    for name, reason in inconclusive:
        print("INCONCLUSIVE shard=%s reason=%s" % (name, reason))
    n_ok = sum(1 for r in results if r['status'] == 'confirmed')
    print("%s tier=%s shards=%d discharged=%d with-known-findings=%d inconclusive=%d "
          "paths=%d queries=%d solver_s=%.1f wall_s=%.1f" % (
              prop_id, tier, len(results), n_ok,
              sum(1 for r in results if r['status'] == 'refuted'),
              len(inconclusive), sum(r.get('confirmed_paths', 0) for r in results),
              sum(r.get('queries', 0) for r in results),
              sum(r.get('solver_s', 0) for r in results), wall))
    if verbose:
        for r in results:
            print("  %-50s %-12s paths=%-5s %.1fs %s" % (
                r['name'], r['status'], r.get('paths'), r.get('wall_s', 0),
                r.get('outcomes')))
    if harness_errors:
        for name, reason in harness_errors:
            print("HARNESS-ERROR shard=%s %s" % (name, reason), file=sys.stderr)
        if not violations:
            return EXIT_HARNESS
    if violations:
        for name, clause, path in violations:
            print("VIOLATION property=%s replay=%s" % (prop_id, path))
            print("  shard=%s clause=%s" % (name, clause))
        return EXIT_VIOLATION
    return EXIT_OK


def write_evidence(mod, prop_id, tier, seed, results, violations, known_hits,
                   harness_errors, inconclusive, funcs, val, wall):
    discharged = [r for r in results if r['status'] == 'confirmed']
    samples = []
    for r in results[:]:
        if len(samples) >= 4:
            break
        if r.get('samples'):
            samples.append({'shard': r['name'], 'params': r['params'],
                            'outcomes_per_path_class': r.get('outcomes'),
                            'one_path_model': r['samples'][0]['model'],
                            'one_path_notes': r['samples'][0]['notes'],
                            'paths': r.get('paths'), 'queries': r.get('queries')})
    if not samples:
        samples = [{'shard': r['name'], 'status': r['status']} for r in results[:2]]
    n_traces = sum(r.get('native_ok', 0) for r in results) + \
        sum(1 for r in results if (r.get('twin') or {}).get('replayed')) + \
        sum(1 for r in results for c in r.get('cex', []) if c.get('reproduced')) + \
        sum(1 for r in results if (r.get('native_default') or {}).get('ok')) + \
        val.get('cases', 0)
    ev = {
        'property_id': prop_id,
        'tier': tier,
        'seed': seed,
        'level': 'model_checking',
        'coverage': {
            'states': max(1, len(discharged)),
            'transitions': max(1, sum(r.get('confirmed_paths', 0) for r in results)),
            'traces_validated_against_impl': n_traces,
            'samples': samples,
            'exhaustive': len(discharged) == len(results) and not violations,
            'explanation': (
                'states = shards (symbolic pre-state class x operation) whose path tree '
                'was exhausted with every path confirmed by the solver; transitions = '
                'symbolic paths confirmed; traces = native re-runs (real hyperframe/hpack, '
                'no tracer) of solver models that agreed with the symbolic run, plus '
                'environment-model validation cases'),
            'shards': {
                'planned': len(results),
                'discharged': len(discharged),
                'with_known_findings_only': sum(
                    1 for r in results if r['status'] == 'refuted' and
                    all(c.get('known') for c in r.get('cex', []))),
                'inconclusive': [{'shard': n, 'reason': w} for n, w in inconclusive],
                'harness_errors': [{'shard': n, 'reason': w[:300]} for n, w in harness_errors],
            },
            'per_shard': [{'shard': r['name'], 'status': r['status'],
                           'paths': r.get('paths'), 'confirmed': r.get('confirmed_paths'),
                           'refuted': r.get('refuted_paths'),
                           'outcomes': r.get('outcomes'), 'queries': r.get('queries'),
                           'solver_s': round(r.get('solver_s', 0), 3),
                           'wall_s': round(r.get('wall_s', 0), 2),
                           'twin': r.get('twin')} for r in results],
            'solver': {'engine': 'crosshair-tool 0.0.110 / z3 (python wheel)',
                       'queries': sum(r.get('queries', 0) for r in results),
                       'seconds': round(sum(r.get('solver_s', 0) for r in results), 3)},
            'functions': funcs,
            'bounds': getattr(mod, 'BOUNDS', {}),
            'outside_claim': getattr(mod, 'OUTSIDE', []),
            'models': getattr(mod, 'MODELS', []),
            'model_validation': val,
            'catalogues': (sys.modules['props.fsm_common'].catalogue_summary()
                           if 'props.fsm_common' in sys.modules else []),
            'known_findings_hit': sorted(set(k for k, _w, _s in known_hits)),
        },
        'assumptions': list(getattr(mod, 'ASSUMPTIONS', [])) + [
            'CrossHair models Python int as z3 Int and its opcode interception is faithful '
            '(mitigated: sampled confirmed paths and every counterexample are re-run natively)',
            'error/log message formatting (str %) does not influence behaviour (static scan '
            'at every run)',
        ],
        'wall_s': round(wall, 2),
        'violations': len(violations),
    }
    os.makedirs(os.path.join(OUT_ROOT, 'evidence'), exist_ok=True)
    with open(os.path.join(OUT_ROOT, 'evidence', prop_id + '.json'), 'w') as f:
        json.dump(ev, f, indent=1, default=str)


def replay_file(prop_id, path):
    """Re-run a recorded counterexample natively (real hyperframe/hpack, no tracer)
    against the current tree.  exit 1 if it still violates, 0 if not."""
    from . import core
    rec = json.load(open(path))
    mod = importlib.import_module('props.' + prop_id.lower())
    shards = [s for s in mod.shards(rec.get('tier', 'thorough'), rec.get('seed', 0))
              if s.name == rec['shard']]
    if not shards:
        shards = [s for s in mod.shards('thorough', rec.get('seed', 0))
                  if s.name == rec['shard']]
    if not shards:
        print("replay: shard %s not found" % rec['shard'], file=sys.stderr)
        return EXIT_HARNESS
    ok, clause, detail, notes = core.run_native(shards[0].fn, rec['model'])
    print("replay shard=%s model=%s" % (rec['shard'], rec['model']))
    print("  notes=%s" % (notes,))
    if ok:
        print("  no violation on the current tree")
        return EXIT_OK
    print("  clause=%s\n  detail=%s" % (clause, detail))
    print("VIOLATION property=%s replay=%s" % (prop_id, path))
    return EXIT_VIOLATION
