"""Observer: an independent RFC 7540 section 5.1 stream-state tracker driven only by
OBSERVABLE traffic of one endpoint -- frames it actually emitted and peer frames it
accepted.  It never looks inside h2 objects.  The per-property oracles are predicates
over this state (DESIGN.md 4.2 'reference state')."""
import copy

IDLE, RES_LOCAL, RES_REMOTE, OPEN, HCL, HCR, CLOSED = (
    'idle', 'reserved(local)', 'reserved(remote)', 'open', 'half-closed(local)',
    'half-closed(remote)', 'closed')


class SView:
    """what is known about one stream"""
    __slots__ = ('st', 'closed_by', 'requester', 'hs', 'ts', 'hr', 'tr', 'info_sent',
                 'pushed', 'ended_events', 'reset_events', 'parent', 'pp_on_hcr')

    def __init__(self):
        self.st = IDLE
        self.closed_by = None       # 'send_es' | 'recv_es' | 'send_rst' | 'recv_rst' | None
        self.requester = None       # True: this endpoint is the requesting side of the stream
        self.hs = False             # final (non-1xx) header block sent
        self.ts = False             # trailers sent
        self.hr = False             # final header block received
        self.tr = False
        self.info_sent = 0
        self.pushed = False
        self.parent = None
        self.pp_on_hcr = False      # a PUSH_PROMISE was accepted on it while half-closed(remote)

    def key(self):
        return (self.st, self.closed_by, self.requester, self.hs, self.ts, self.hr, self.tr,
                self.pushed)

    def is_open(self):
        return self.st in (OPEN, HCL, HCR)


class Observer:
    def __init__(self, client):
        self.client = client
        self.streams = {}
        self.conn_closed = None      # None | 'sent-goaway' | 'recv-goaway' | 'error'
        self.highest_out = 0
        self.highest_in = 0
        self.goaways_sent = 0
        self.last_goaway = None      # last-stream-id of the most recent GOAWAY we sent

    def clone(self):
        return copy.deepcopy(self)

    def s(self, sid):
        v = self.streams.get(sid)
        if v is None:
            v = SView()
            own = (sid % 2 == 1) == self.client
            mark = self.highest_out if own else self.highest_in
            if sid <= mark:
                v.st = CLOSED            # implicitly closed by a higher id (5.1.1)
            return v
        return v

    def _get(self, sid):
        if sid not in self.streams:
            self.streams[sid] = self.s(sid)
        return self.streams[sid]

    def key(self):
        return (self.client, self.conn_closed, self.highest_out, self.highest_in,
                tuple(sorted((sid, v.key()) for sid, v in self.streams.items())))

    def own(self, sid):
        return (sid % 2 == 1) == self.client

    # ------------------------------------------------------------ emitted frames
    def on_sent(self, f):
        name = type(f).__name__
        sid = f.stream_id
        if name == 'GoAwayFrame':
            self.goaways_sent += 1
            self.last_goaway = f.last_stream_id
            if self.conn_closed is None:
                self.conn_closed = 'sent-goaway'
            return
        if name == 'HeadersFrame':
            v = self._get(sid)
            end = 'END_STREAM' in f.flags
            if v.st == IDLE:
                v.st = OPEN
                v.requester = True
                v.hs = True
                if self.own(sid):
                    self.highest_out = max(self.highest_out, sid)
            elif v.st == RES_LOCAL:
                v.st = HCR
                v.hs = True
            else:
                kind = getattr(f, '_verif_kind', None)
                if kind == 'info':
                    v.info_sent += 1
                elif not v.hs:
                    v.hs = True
                else:
                    v.ts = True
            if end:
                self._send_end(v)
        elif name == 'DataFrame':
            v = self._get(sid)
            if 'END_STREAM' in f.flags:
                self._send_end(v)
        elif name == 'RstStreamFrame':
            v = self._get(sid)
            if v.st != CLOSED:
                v.st = CLOSED
                v.closed_by = 'send_rst'
            elif v.closed_by is None:
                v.closed_by = 'send_rst'
            if not self.own(sid) and sid > self.highest_in:
                self.highest_in = sid      # a peer-initiated (promised) stream we refused
        elif name == 'PushPromiseFrame':
            p = self._get(f.promised_stream_id)
            p.st = RES_LOCAL
            p.requester = False
            p.hr = True
            p.pushed = True
            p.parent = sid
            self.highest_out = max(self.highest_out, f.promised_stream_id)

    def _send_end(self, v):
        if v.st == OPEN:
            v.st = HCL
        elif v.st == HCR:
            v.st = CLOSED
            v.closed_by = 'send_es'

    def _recv_end(self, v):
        if v.st == OPEN:
            v.st = HCR
        elif v.st == HCL:
            v.st = CLOSED
            v.closed_by = 'recv_es'

    # ------------------------------------------------------------ accepted peer frames
    def on_accepted(self, f, kind=None):
        """a peer frame that the endpoint accepted (no error of any kind)"""
        name = type(f).__name__
        sid = f.stream_id
        if name == 'GoAwayFrame':
            self.conn_closed = self.conn_closed or 'recv-goaway'
            return
        if name == 'HeadersFrame':
            v = self._get(sid)
            end = 'END_STREAM' in f.flags
            if v.st == IDLE:
                v.st = OPEN
                v.requester = False
                v.hr = True
                if not self.own(sid):
                    self.highest_in = max(self.highest_in, sid)
            elif v.st == RES_REMOTE:
                v.st = HCL
                v.hr = True
            else:
                if kind == 'info':
                    pass
                elif not v.hr:
                    v.hr = True
                else:
                    v.tr = True
            if end:
                self._recv_end(v)
        elif name == 'DataFrame':
            v = self._get(sid)
            if 'END_STREAM' in f.flags:
                self._recv_end(v)
        elif name == 'RstStreamFrame':
            v = self._get(sid)
            if v.st not in (CLOSED, IDLE):
                v.st = CLOSED
                v.closed_by = 'recv_rst'
        elif name == 'PushPromiseFrame':
            p = self._get(f.promised_stream_id)
            p.st = RES_REMOTE
            p.requester = True
            p.hs = True
            p.pushed = True
            p.parent = sid
            self.highest_in = max(self.highest_in, f.promised_stream_id)

    def on_push_refused(self, parent):
        """the endpoint answered a PUSH_PROMISE with RST_STREAM on the promised stream"""
        par = self._get(parent)
        if par.st == HCR:
            par.pp_on_hcr = True       # precondition of known finding F-C06-2

    def on_conn_error(self):
        self.conn_closed = self.conn_closed or 'error'
