"""Helpers around the real h2 objects: witness construction, frame delivery
(FrameFeed in symbolic mode, real bytes natively), the adapter that knows private
attribute names, frame/event summaries."""
from hyperframe import frame as hf

import h2.connection
import h2.config
import h2.events
import h2.exceptions
import h2.settings
import h2.stream
import h2.frame_buffer
from h2.connection import H2Connection
from h2.config import H2Configuration

from crosshair.tracers import NoTracing

from . import core, models
from .core import CTX, HarnessError

REQ = [(b':method', b'GET'), (b':scheme', b'https'), (b':authority', b'example.com'),
       (b':path', b'/')]
REQ_POST = [(b':method', b'POST'), (b':scheme', b'https'), (b':authority', b'example.com'),
            (b':path', b'/p')]
REQ_HEAD = [(b':method', b'HEAD'), (b':scheme', b'https'), (b':authority', b'example.com'),
            (b':path', b'/h')]
REQ_CONNECT = [(b':method', b'CONNECT'), (b':authority', b'example.com:443')]
# the request a peer promises: a DIFFERENT authority than the parent request's
REQ_PUSHED = [(b':method', b'GET'), (b':scheme', b'https'), (b':authority', b'cdn.example.net'),
              (b':path', b'/pushed')]
REQ_HOSTONLY = [(b':method', b'GET'), (b':scheme', b'https'), (b':path', b'/'),
                (b'host', b'example.com')]
# requests that only the LAST outbound checks refuse (after every other field was looked at)
REQ_NOAUTH = [(b':method', b'GET'), (b':scheme', b'https'), (b':path', b'/'),
              (b'x-indexable', b'value-1')]
REQ_HOSTMISMATCH = [(b':method', b'GET'), (b':scheme', b'https'), (b':authority', b'a.example'),
                    (b':path', b'/'), (b'x-indexable', b'value-2'), (b'host', b'b.example')]
REQ_EMPTYPATH = [(b':method', b'GET'), (b':scheme', b'https'), (b':authority', b'example.com'),
                 (b'x-indexable', b'value-3'), (b':path', b'')]
RESP = [(b':status', b'200'), (b'server', b'x')]
RESP204 = [(b':status', b'204')]
RESP304 = [(b':status', b'304')]
INFO = [(b':status', b'100')]
TRAILERS = [(b'x-trailer', b'v')]
BAD = [(b':status', b'200'), (b':path', b'/')]


def conn(client, **cfg):
    return H2Connection(H2Configuration(client_side=client, **cfg))


def pair(ccfg=None, scfg=None, settle=True):
    """A connected client/server pair after the preface + SETTINGS exchange."""
    c = conn(True, **(ccfg or {}))
    s = conn(False, **(scfg or {}))
    c.initiate_connection()
    s.initiate_connection()
    if settle:
        pump(c, s)
    return c, s


def pump(a, b, rounds=4):
    """Deliver everything pending in both directions until quiescent (native)."""
    evs_a, evs_b = [], []
    for _ in range(rounds):
        da = a.data_to_send()
        db = b.data_to_send()
        if not da and not db:
            break
        if da:
            evs_b.extend(b.receive_data(da))
        if db:
            evs_a.extend(a.receive_data(db))
    return evs_a, evs_b


class native:
    """`with native():` -- run the block without the tracer (real hyperframe/hpack).
    A no-op outside symbolic mode."""

    def __enter__(self):
        self.nt = None
        if CTX.mode == 'sym':
            self.nt = NoTracing()
            self.nt.__enter__()
            models.NATIVE_DEPTH[0] += 1
        return self

    def __exit__(self, *a):
        if self.nt is not None:
            models.NATIVE_DEPTH[0] -= 1
            return self.nt.__exit__(*a)
        return False


# ------------------------------------------------------------------ FrameFeed
class FrameFeed:
    """Stands in for conn.incoming_buffer in symbolic mode: yields prepared frames.
    The real length check of FrameBuffer runs on each frame's (symbolic) body_len."""

    def __init__(self, frames, real):
        self.frames = list(frames)
        self.max_frame_size = 0
        self._real = real

    def add_data(self, data):
        pass

    def __iter__(self):
        return self

    def __next__(self):
        if not self.frames:
            raise StopIteration()
        f = self.frames.pop(0)
        h2.frame_buffer.FrameBuffer._validate_frame_length(self, f.body_len)
        return self._merge(f)

    def _merge(self, f):
        """a fragmented header block that is completely present: the FrameBuffer hands
        HEADERS / PUSH_PROMISE + CONTINUATIONs on as ONE frame holding the whole block
        (each fragment's length is validated first, like there); an incomplete or broken
        sequence is passed on frame by frame, as before"""
        from hyperframe import frame as hf
        if not isinstance(f, (hf.HeadersFrame, hf.PushPromiseFrame)) or \
                'END_HEADERS' in f.flags:
            return f
        j, n, ok = 0, len(f.data), False
        while j < len(self.frames) and isinstance(self.frames[j], hf.ContinuationFrame) and \
                self.frames[j].stream_id == f.stream_id:
            n = n + len(self.frames[j].data)
            j += 1
            if 'END_HEADERS' in self.frames[j - 1].flags:
                ok = True
                break
        if not ok or j >= h2.frame_buffer.CONTINUATION_BACKLOG:
            return f
        for g in self.frames[:j]:
            h2.frame_buffer.FrameBuffer._validate_frame_length(self, g.body_len)
        del self.frames[:j]
        from . import models
        m = models._snapshot_frame(f)
        m.flags.add('END_HEADERS')
        m.data = models.LenBytes(n)
        return m


def deliver(c, frames):
    """Hand `frames` (hyperframe objects with possibly symbolic fields) to connection c
    as if they had arrived on the wire.  Native mode: real bytes through the real
    FrameBuffer."""
    if CTX.mode == 'sym':
        real = c.incoming_buffer
        for f in frames:
            f.body_len = models.model_body_len(f)
        feed = FrameFeed(frames, real)
        c.incoming_buffer = feed
        try:
            return c.receive_data(b'')
        finally:
            c.incoming_buffer = real
    data = b''.join(f.serialize() for f in frames)
    return c.receive_data(data)


# ------------------------------------------------------------------ summaries
def frame_sig(f):
    """(type name, stream id, sorted flags) of an emitted frame."""
    return (type(f).__name__, f.stream_id, tuple(sorted(f.flags)))


def ev_names(events):
    return [type(e).__name__ for e in events]


def outcome_of(exc):
    """classify an exception raised by a public call"""
    if exc is None:
        return 'ok'
    return type(exc).__name__


# ------------------------------------------------------------------ adapter
class Adapter:
    """The only place that knows private attribute names.  A missing attribute is a
    harness error (exit 3), never a finding."""

    @staticmethod
    def _need(obj, name):
        if not hasattr(obj, name):
            raise HarnessError("adapter: %s has no attribute %s (refactor?)"
                               % (type(obj).__name__, name))

    @classmethod
    def set_conn_out_window(cls, c, v):
        cls._need(c, 'outbound_flow_control_window')
        c.outbound_flow_control_window = v

    @classmethod
    def set_stream_out_window(cls, c, sid, v):
        s = c.streams[sid]
        cls._need(s, 'outbound_flow_control_window')
        s.outbound_flow_control_window = v

    @classmethod
    def set_max_out_frame(cls, c, m):
        cls._need(c, 'max_outbound_frame_size')
        c.max_outbound_frame_size = m
        for s in c.streams.values():
            cls._need(s, 'max_outbound_frame_size')
            s.max_outbound_frame_size = m
        # the Settings object is the source for later streams
        c.remote_settings._settings[h2.settings.SettingCodes.MAX_FRAME_SIZE][0] = m

    @classmethod
    def conn_wm(cls, c):
        cls._need(c, '_inbound_flow_control_window_manager')
        return c._inbound_flow_control_window_manager

    @classmethod
    def stream_wm(cls, c, sid):
        s = c.streams[sid]
        cls._need(s, '_inbound_window_manager')
        return s._inbound_window_manager

    @classmethod
    def set_wm(cls, wm, cur, mx, processed):
        for n in ('current_window_size', 'max_window_size', '_bytes_processed'):
            cls._need(wm, n)
        wm.current_window_size = cur
        wm.max_window_size = mx
        wm._bytes_processed = processed

    @classmethod
    def set_remote_initial_window(cls, c, v):
        c.remote_settings._settings[h2.settings.SettingCodes.INITIAL_WINDOW_SIZE][0] = v

    @classmethod
    def set_local_setting(cls, c, code, v):
        c.local_settings._settings[code][0] = v

    @classmethod
    def set_remote_setting(cls, c, code, v):
        import collections
        d = c.remote_settings._settings
        if code in d:
            d[code][0] = v
        else:
            d[code] = collections.deque([v])


# ------------------------------------------------------------------ companion settings
SETTING_RANGES = {1: (0, 2 ** 32 - 1), 2: (0, 1), 3: (0, 2 ** 32 - 1), 4: (0, 2 ** 31 - 1),
                  5: (16384, 2 ** 24 - 1), 6: (0, 2 ** 32 - 1), 8: (0, 1)}


def sym_companion(settings, role_client=None, exclude=(), tag='co', subset=False):
    """A SETTINGS payload rarely carries one setting alone.  Adds to the dict `settings`
    a solver-chosen companion: none, or one other known setting (any subset of them with
    subset=True) with a symbolic value from its valid range -- so that the handling of the
    setting under test is decided in the presence of every other setting.
    role_client: the SENDER's role (a server must not send ENABLE_PUSH != 0)."""
    from .core import sym_choice, sym_bool, sym_int
    cands = [k for k in sorted(SETTING_RANGES) if k not in exclude and k not in settings]
    if subset:
        chosen = [k for k in cands if sym_bool('%s_has_%d' % (tag, k))]
    else:
        pick = sym_choice(tag + '_id', [0] + cands)
        chosen = [pick] if pick else []
    for k in chosen:
        lo, hi = SETTING_RANGES[k]
        if k == 2 and role_client is False:
            hi = 0
        settings[k] = sym_int('%s_v%d' % (tag, k), lo, hi, default=lo)
    return chosen
