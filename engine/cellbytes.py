"""CellBytes (DESIGN.md 3.3): a byte string of CONCRETE length whose cells are symbolic
ints in 0..255, with branch-free ==, lower, startswith and character-class search, so
that header names and values can be solver variables while the real h2.utilities code
runs on them.  Also: hash-free containment for frozensets, a character-class model of
UPPER_RE, and bytes.join for cell strings."""
import re
from string import whitespace

import z3
from crosshair.core import register_patch, register_opcode_patch
from crosshair.libimpl.builtinslib import SymbolicInt, SymbolicBool
from crosshair.opcode_intercept import CONTAINS_OP, frame_stack_read, frame_stack_write
from crosshair.statespace import context_statespace
from crosshair.tracers import NoTracing, TracingModule
from crosshair.util import CrossHairValue

import h2.utilities

from . import core
from .core import CTX, HarnessError

WS = frozenset(map(ord, whitespace))


def _z(c):
    """z3 term of a cell (call under NoTracing)"""
    if isinstance(c, SymbolicInt):
        return c.var
    return z3.IntVal(int(c))


def _sym(term):
    return SymbolicBool(term)


class CellBytes(CrossHairValue):
    def __init__(self, cells, text=False):
        self.cells = list(cells)
        self.text = text          # True: the decoded text (str) of these UTF-8 bytes

    def __ch_pytype__(self):
        return str if self.text else bytes

    def __ch_realize__(self):
        b = bytes(core.realize(c) for c in self.cells)
        return b.decode('utf-8') if self.text else b

    def __ch_deep_realize__(self, memo):
        return self.__ch_realize__()

    def __len__(self):
        return len(self.cells)

    def __bool__(self):
        return len(self.cells) != 0

    def __iter__(self):
        return iter(self.cells)

    def __getitem__(self, i):
        if isinstance(i, slice):
            return CellBytes(self.cells[i], self.text)
        if self.text:
            # str semantics: indexing a str gives a 1-character str, never an int
            return CellBytes([self.cells[i]], True)
        return self.cells[i]          # genuine IndexError on an empty name

    def __repr__(self):
        return "<Cell%s len=%d>" % ('Str' if self.text else 'Bytes', len(self.cells))

    # -------------------------------------------------------------- comparison
    def _other_cells(self, other):
        """cells of a comparable value of the SAME kind, or None"""
        with NoTracing():
            t = type(other)
            if t is CellBytes:
                return other.cells if other.text == self.text else None
            if t is bytes and not self.text:
                return list(other)
            if t is str and self.text:
                return list(other.encode('utf-8'))
        return None

    def _eq_term(self, oc):
        with NoTracing():
            return z3.And(*[_z(a) == _z(b) for a, b in zip(self.cells, oc)]) \
                if self.cells else z3.BoolVal(True)

    def __eq__(self, other):
        oc = self._other_cells(other)
        if oc is None or len(oc) != len(self.cells):
            return False
        with NoTracing():
            if all(type(c) is int for c in self.cells) and all(type(c) is int for c in oc):
                return self.cells == oc
            return _sym(self._eq_term(oc))

    def __ne__(self, other):
        r = self.__eq__(other)
        with NoTracing():
            if isinstance(r, SymbolicBool):
                return _sym(z3.Not(r.var))
        return not r

    def __hash__(self):
        for cand in CANDIDATES.get((self.text, len(self.cells)), ()):
            if self == cand:
                return hash(cand)
        return hash(('cell-other', self.text, len(self.cells)))

    # -------------------------------------------------------------- bytes API used by h2
    def lower(self):
        with NoTracing():
            out = []
            for c in self.cells:
                if type(c) is int:
                    out.append(c + 32 if 65 <= c <= 90 else c)
                else:
                    zc = _z(c)
                    out.append(SymbolicInt(z3.If(z3.And(zc >= 65, zc <= 90), zc + 32, zc)))
            return CellBytes(out, self.text)

    def startswith(self, prefix):
        with NoTracing():
            if type(prefix) is tuple:
                raise HarnessError("CellBytes.startswith(tuple)")
        pc = self._other_cells(prefix)
        if pc is None:
            raise TypeError("startswith first arg must be bytes or a tuple of bytes")
        if len(pc) > len(self.cells):
            return False
        return CellBytes(self.cells[:len(pc)], self.text) == prefix

    def endswith(self, suffix):
        pc = self._other_cells(suffix)
        if pc is None:
            raise TypeError("endswith first arg must be bytes")
        if len(pc) > len(self.cells):
            return False
        return CellBytes(self.cells[len(self.cells) - len(pc):], self.text) == suffix

    def strip(self, chars=None):
        """forks on the number of stripped cells (the result length is control flow)"""
        if chars is not None:
            raise HarnessError("CellBytes.strip(chars)")
        lo, hi = 0, len(self.cells)
        while lo < hi and _in_intset(self.cells[lo], WS):
            lo += 1
        while hi > lo and _in_intset(self.cells[hi - 1], WS):
            hi -= 1
        return CellBytes(self.cells[lo:hi], self.text)

    def decode(self, encoding='utf-8', errors='strict'):
        if self.text:
            raise AttributeError("'str' object has no attribute 'decode'")
        enc = encoding.lower().replace('_', '-')
        if enc not in ('utf-8', 'utf8') or errors != 'strict':
            raise HarnessError("CellBytes.decode(%r, %r)" % (encoding, errors))
        if utf8_valid(self.cells):
            return CellBytes(self.cells, text=True)
        raise UnicodeDecodeError('utf-8', b'\xff', 0, 1, 'invalid start byte')

    def encode(self, encoding='utf-8', errors='strict'):
        if not self.text:
            raise AttributeError("'bytes' object has no attribute 'encode'")
        return CellBytes(self.cells, text=False)

    def __add__(self, other):
        oc = self._other_cells(other)
        if oc is None:
            return NotImplemented
        return CellBytes(self.cells + list(oc), self.text)

    def __radd__(self, other):
        oc = self._other_cells(other)
        if oc is None:
            return NotImplemented
        return CellBytes(list(oc) + self.cells, self.text)


def _in_intset(c, members):
    """branch-free membership of a cell in a set of ints (one fork at the caller)"""
    with NoTracing():
        if type(c) is int:
            return c in members
        zc = _z(c)
        return _sym(z3.Or(*[zc == m for m in sorted(members)]))


def utf8_valid(cells):
    """exact UTF-8 well-formedness (RFC 3629) of the cell string as ONE z3 term: an
    unrolled DFA whose state is an integer term"""
    with NoTracing():
        if all(type(c) is int for c in cells):
            try:
                bytes(cells).decode('utf-8')
                return True
            except UnicodeDecodeError:
                return False
        # states: 0 start, 1 need1, 2 need2, 3 need3, 4 E0 (A0..BF then 1), 5 ED (80..9F then 1)
        # 6 F0 (90..BF then 2), 7 F4 (80..8F then 2), 9 reject
        st = z3.IntVal(0)
        R = z3.IntVal(9)

        def rng(c, lo, hi):
            return z3.And(c >= lo, c <= hi)

        for cell in cells:
            c = _z(cell)
            nxt0 = z3.If(c <= 0x7F, 0,
                   z3.If(rng(c, 0xC2, 0xDF), 1,
                   z3.If(c == 0xE0, 4,
                   z3.If(z3.Or(rng(c, 0xE1, 0xEC), rng(c, 0xEE, 0xEF)), 2,
                   z3.If(c == 0xED, 5,
                   z3.If(c == 0xF0, 6,
                   z3.If(rng(c, 0xF1, 0xF3), 3,
                   z3.If(c == 0xF4, 7, R))))))))
            cont = rng(c, 0x80, 0xBF)
            st = z3.If(st == 0, nxt0,
                 z3.If(st == 1, z3.If(cont, 0, R),
                 z3.If(st == 2, z3.If(cont, 1, R),
                 z3.If(st == 3, z3.If(cont, 2, R),
                 z3.If(st == 4, z3.If(rng(c, 0xA0, 0xBF), 1, R),
                 z3.If(st == 5, z3.If(rng(c, 0x80, 0x9F), 1, R),
                 z3.If(st == 6, z3.If(rng(c, 0x90, 0xBF), 2, R),
                 z3.If(st == 7, z3.If(rng(c, 0x80, 0x8F), 2, R), R))))))))
        return _sym(st == 0)


def sym_cells(name, n, lo=0, hi=255):
    """n fresh cells; native mode: the model's bytes"""
    if CTX.mode == 'native':
        v = CTX.model.get(name)
        if v is None:
            v = bytes([max(lo, min(hi, 97))]) * n
        if isinstance(v, str):
            v = v.encode('latin-1')
        assert len(v) == n, (name, v, n)
        CTX.registry.append((name, v))
        return v
    with NoTracing():
        space = context_statespace()
        cells = []
        for i in range(n):
            c = SymbolicInt('%s_%d_' % (name, i) + space.uniq())
            space.add(z3.And(c.var >= lo, c.var <= hi))
            cells.append(c)
        cb = CellBytes(cells)
        core._register(name, cb)
    return cb


# ------------------------------------------------------------------ candidate constants
def _collect_candidates():
    """every bytes/str constant of h2.utilities (globals, frozensets, code constants)"""
    found = set()

    def walk_code(co):
        for k in co.co_consts:
            if isinstance(k, (bytes, str)):
                found.add(k)
            elif isinstance(k, (tuple, frozenset)):
                for x in k:
                    if isinstance(x, (bytes, str)):
                        found.add(x)
            elif hasattr(k, 'co_consts'):
                walk_code(k)

    for v in vars(h2.utilities).values():
        if isinstance(v, (bytes, str)):
            found.add(v)
        elif isinstance(v, (frozenset, set, tuple, list)):
            for x in v:
                if isinstance(x, (bytes, str)):
                    found.add(x)
        elif hasattr(v, '__code__'):
            walk_code(v.__code__)
    out = {}
    for k in found:
        if isinstance(k, bytes):
            out.setdefault((False, len(k)), []).append(k)
        else:
            b = k.encode('utf-8')
            out.setdefault((True, len(b)), []).append(k)
    for k in out:
        out[k].sort()
    return out


CANDIDATES = _collect_candidates()


# ------------------------------------------------------------------ hash-free containment
class OrSet:
    """stand-in for a frozenset/set/tuple during `x in container` when x is symbolic:
    one z3 disjunction instead of hashing or sequential comparison"""

    def __init__(self, members):
        self.members = list(members)

    def __contains__(self, item):
        with NoTracing():
            t = type(item)
        if t is CellBytes:
            terms = []
            hit = False
            for m in self.members:
                oc = item._other_cells(m)
                if oc is None or len(oc) != len(item.cells):
                    continue
                with NoTracing():
                    if type(m) is CellBytes or any(type(c) is not int for c in item.cells):
                        terms.append(item._eq_term(oc))
                    elif item.cells == oc:
                        hit = True
            if hit:
                return True
            if not terms:
                return False
            with NoTracing():
                return _sym(z3.Or(*terms))
        with NoTracing():
            if isinstance(item, SymbolicInt):
                ints = [m for m in self.members if type(m) is int]
                if len(ints) == len(self.members):
                    return _sym(z3.Or(*[item.var == m for m in ints])) if ints else False
        for m in self.members:
            if item == m:
                return True
        return False


class CellContainment(TracingModule):
    opcodes_wanted = frozenset([CONTAINS_OP])

    def trace_op(self, frame, codeobj, codenum):
        item = frame_stack_read(frame, -2)
        ti = type(item)
        if ti is not CellBytes and ti is not SymbolicInt:
            return
        container = frame_stack_read(frame, -1)
        tc = type(container)
        if tc is frozenset or tc is tuple or (tc is set and ti is CellBytes):
            frame_stack_write(frame, -1, OrSet(container))


register_opcode_patch(CellContainment())


# ------------------------------------------------------------------ UPPER_RE model
class CharClassRe:
    """a compiled pattern that is a single character class, as a range predicate derived
    from the real pattern's source; real strings are handed to the real pattern"""

    def __init__(self, real):
        self.real = real
        self.pattern = real.pattern
        src = real.pattern
        if isinstance(src, str):
            src = src.encode('latin-1')
        m = re.fullmatch(rb'\[((?:[^\]\\]-[^\]\\]|[^\]\\-])+)\]', src)
        if not m:
            raise HarnessError("CharClassRe: %r is not a plain character class" % (src,))
        body = m.group(1)
        self.ranges = []
        i = 0
        while i < len(body):
            if i + 2 < len(body) and body[i + 1:i + 2] == b'-':
                self.ranges.append((body[i], body[i + 2]))
                i += 3
            else:
                self.ranges.append((body[i], body[i]))
                i += 1

    def search(self, s, *a):
        with NoTracing():
            is_cell = type(s) is CellBytes
        if not is_cell:
            return self.real.search(s, *a)
        with NoTracing():
            terms = []
            for c in s.cells:
                if type(c) is int:
                    if any(lo <= c <= hi for lo, hi in self.ranges):
                        return True
                else:
                    zc = _z(c)
                    terms.append(z3.Or(*[z3.And(zc >= lo, zc <= hi) for lo, hi in self.ranges]))
            if not terms:
                return None
            return _sym(z3.Or(*terms))

    def __getattr__(self, n):
        return getattr(self.real, n)


def install_upper_re():
    cur = h2.utilities.UPPER_RE
    if not isinstance(cur, CharClassRe):
        h2.utilities.UPPER_RE = CharClassRe(cur)
    return h2.utilities.UPPER_RE


def validate_upper_re():
    m = install_upper_re()
    n = 0
    for b in range(256):
        real = bool(m.real.search(bytes([b])))
        mod = any(lo <= b <= hi for lo, hi in m.ranges)
        if real != mod:
            raise HarnessError("CharClassRe disagrees with %r on byte %d" % (m.pattern, b))
        n += 1
    return n


# ------------------------------------------------------------------ bytes.join
import crosshair.core as _cc
_prev_join = _cc._PATCH_REGISTRATIONS.get(bytes.join)


def _join(self, iterable):
    items = list(iterable)
    with NoTracing():
        cell = any(type(x) is CellBytes for x in items) or type(self) is CellBytes
    if not cell:
        if _prev_join is not None:
            return _prev_join(self, items)
        return bytes.join(self, items)
    out = []
    sep = list(self) if not isinstance(self, CellBytes) else self.cells
    for i, x in enumerate(items):
        if i:
            out.extend(sep)
        with NoTracing():
            xc = x.cells if type(x) is CellBytes else list(x)
        out.extend(xc)
    return CellBytes(out)


_cc._PATCH_REGISTRATIONS[bytes.join] = _join


def validate_cellbytes():
    """concrete-cell CellBytes must behave like bytes on the operations h2 uses"""
    n = 0
    samples = [b'', b'a', b'A', b' a', b'a ', b'\tA b\n', b':path', b'te', b'Cookie', b'TE',
               b'\xc3\xa9', b'\xff', b'\xe0\x80\x80', b'\xf4\x90\x80\x80', b'\xed\xa0\x80']
    for b in samples + [bytes([i]) for i in range(256)]:
        c = CellBytes(list(b))
        checks = [
            (c.lower().cells, list(b.lower())),
            (c.strip().cells, list(b.strip())),
            (bool(c.startswith(b':')), b.startswith(b':')),
            (bool(c == b), True),
            (bool(c == b + b'x'), False),
            (len(c), len(b)),
        ]
        try:
            b.decode('utf-8')
            ok = True
        except UnicodeDecodeError:
            ok = False
        checks.append((bool(utf8_valid(list(b))), ok))
        for got, want in checks:
            if got != want:
                raise HarnessError("CellBytes differs from bytes on %r: %r != %r" % (b, got, want))
            n += 1
    return n


install_upper_re()
