"""./check entry point."""
import argparse
import importlib
import json
import os
import sys

ROOT = os.path.dirname(os.path.dirname(os.path.abspath(__file__)))
sys.path.insert(0, ROOT)


def main():
    ap = argparse.ArgumentParser()
    ap.add_argument('prop')
    ap.add_argument('--tier', default=os.environ.get('VERIF_TIER', 'quick'),
                    choices=['quick', 'thorough'])
    ap.add_argument('--replay')
    ap.add_argument('--only')
    ap.add_argument('--jobs', type=int)
    ap.add_argument('-v', action='store_true')
    a = ap.parse_args()
    seed = int(os.environ.get('VERIF_SEED', '0') or 0)
    prop = a.prop.upper()
    from engine import runner
    if a.replay:
        sys.exit(runner.replay_file(prop, a.replay))
    sys.exit(runner.run_property(prop, a.tier, seed, jobs=a.jobs, only=a.only,
                                 verbose=a.v))


if __name__ == '__main__':
    main()
