"""Validation of the environment models against the real dependencies; run at the
start of every check (DESIGN.md 3.3).  A failed validation is a harness error."""
import ast
import os
import random
import struct

from hyperframe import frame as hf

from .core import HarnessError

H2_SRC = os.path.join(os.path.dirname(os.path.abspath(__import__('h2').__file__)))


# ------------------------------------------------------------------ fmt_stub
def fmt_scan():
    """Every %-format in src/h2 must be an argument of a raise, of a logger call,
    live in __repr__/__str__, or run at import/config time: then the message text
    cannot influence protocol behaviour and stubbing `str % x` is sound."""
    bad = []
    n = 0
    for fn in sorted(os.listdir(H2_SRC)):
        if not fn.endswith('.py'):
            continue
        src = open(os.path.join(H2_SRC, fn)).read()
        tree = ast.parse(src)
        parents = {}
        for node in ast.walk(tree):
            for ch in ast.iter_child_nodes(node):
                parents[ch] = node
        for node in ast.walk(tree):
            if not (isinstance(node, ast.BinOp) and isinstance(node.op, ast.Mod)):
                continue
            left = node.left
            is_str = (isinstance(left, ast.Constant) and isinstance(left.value, str)) or \
                isinstance(left, ast.JoinedStr) or \
                (isinstance(left, ast.BinOp) and isinstance(left.op, ast.Add))
            if not is_str:
                # integer modulo: left side must not be a string constant
                if isinstance(left, ast.Constant) and isinstance(left.value, (bytes, str)):
                    pass
                else:
                    continue
            n += 1
            ok = False
            cur = node
            while cur in parents:
                cur = parents[cur]
                if isinstance(cur, ast.Raise):
                    ok = True
                    break
                if isinstance(cur, ast.Call):
                    f = cur.func
                    if isinstance(f, ast.Attribute) and f.attr in ('debug', 'trace'):
                        ok = True
                        break
                if isinstance(cur, ast.FunctionDef) and cur.name in ('__repr__', '__str__'):
                    ok = True
                    break
                if isinstance(cur, ast.FunctionDef) and cur.name == '__init__' and \
                        isinstance(parents.get(cur), ast.ClassDef) and \
                        parents[cur].name == '_BooleanConfigOption':
                    ok = True
                    break
            if not ok:
                bad.append('%s:%d' % (fn, node.lineno))
    if bad:
        raise HarnessError("fmt_stub contract broken: %%-format outside raise/log/repr at %s"
                           % bad)
    return n


# ------------------------------------------------------------------ HfSerialize
def _frames_for_validation(rng):
    out = []
    ints = [0, 1, 2, 5, 255, 256, 16384, 2 ** 31 - 1, 2 ** 31, 2 ** 32 - 1, 2 ** 32, -1]
    lens = [0, 1, 7, 8, 9, 100]
    for pad in [None, 0, 1, 255, 256, -1]:
        for n in lens:
            f = hf.DataFrame(1)
            f.data = b'x' * n
            if pad is not None:
                f.flags.add('PADDED')
                f.pad_length = pad
            out.append(f)
            for prio in (False, True):
                h = hf.HeadersFrame(1)
                h.data = b'y' * n
                if pad is not None:
                    h.flags.add('PADDED')
                    h.pad_length = pad
                if prio:
                    h.flags.add('PRIORITY')
                    h.depends_on = rng.choice(ints)
                    h.stream_weight = rng.choice([0, 15, 255, 256, -1])
                    h.exclusive = rng.choice([True, False])
                out.append(h)
            p = hf.PushPromiseFrame(1)
            p.promised_stream_id = rng.choice(ints)
            p.data = b'z' * n
            if pad is not None:
                p.flags.add('PADDED')
                p.pad_length = pad
            out.append(p)
    for v in ints:
        r = hf.RstStreamFrame(1)
        r.error_code = v
        out.append(r)
        g = hf.GoAwayFrame(0)
        g.error_code = v
        g.last_stream_id = rng.choice([0, 1, 2 ** 31 - 1])
        g.additional_data = b'a' * rng.choice(lens)
        out.append(g)
        w = hf.WindowUpdateFrame(rng.choice([0, 1]))
        w.window_increment = v
        out.append(w)
        s = hf.SettingsFrame(0)
        s.settings = {1: v, 4: rng.choice(ints)}
        out.append(s)
        pr = hf.PriorityFrame(3)
        pr.depends_on = v
        pr.stream_weight = rng.choice([0, 15, 255, 256, -1])
        pr.exclusive = rng.choice([True, False])
        out.append(pr)
    for n in [0, 1, 8, 9]:
        pg = hf.PingFrame(0)
        pg.opaque_data = b'p' * n
        out.append(pg)
        c = hf.ContinuationFrame(1)
        c.data = b'c' * n
        out.append(c)
        a = hf.AltSvcFrame(0)
        a.origin = b'o' * n
        a.field = b'f' * (n + 1)
        out.append(a)
    s = hf.SettingsFrame(0)
    s.flags.add('ACK')
    out.append(s)
    return out


def hf_serialize(seed=0):
    """model_body_len must give the same body length / raise in the same cases as the
    real hyperframe serialiser."""
    from . import models
    rng = random.Random(seed)
    n = 0
    for f in _frames_for_validation(rng):
        try:
            real = len(f.serialize_body())
            rexc = None
        except (struct.error, hf.InvalidFrameError, OverflowError) as e:
            real, rexc = None, type(e).__name__
        try:
            mod = models.model_body_len(f)
            mexc = None
        except (struct.error, hf.InvalidFrameError) as e:
            mod, mexc = None, type(e).__name__
        if (real is None) != (mod is None) or (real is not None and real != mod):
            raise HarnessError("HfSerialize model disagrees with hyperframe on %r: "
                               "real=%s/%s model=%s/%s" % (f.__class__.__name__, real, rexc,
                                                           mod, mexc))
        n += 1
    return n


def run_for(mod):
    out = {'cases': 0, 'ran': []}
    n = fmt_scan()
    out['fmt_sites_scanned'] = n
    out['ran'].append('fmt_scan')
    out['cases'] += 1
    models_used = getattr(mod, 'MODELS', [])
    if 'HfSerialize' in models_used:
        k = hf_serialize()
        out['hf_serialize_cases'] = k
        out['cases'] += k
        out['ran'].append('hf_serialize')
    for extra in getattr(mod, 'VALIDATORS', []):
        k = extra()
        out['cases'] += int(k or 0)
        out['ran'].append(getattr(extra, '__name__', 'extra'))
    return out
