"""SymMap (DESIGN.md 3.3): a mapping with linear, hash-free lookup so that stream ids can
be symbolic.  Stands in for conn.streams (dict) and conn._closed_streams (SizeLimitDict);
h2 touches both through the mapping protocol only (checked by scan_streams_usage)."""
import ast
import os

from .core import CTX, HarnessError, sym_bool, sym_int


class LinearMap:
    def __init__(self, pairs=()):
        self._p = [(k, v) for k, v in pairs]

    def _find(self, key):
        for i, (k, _v) in enumerate(self._p):
            if k == key:        # forks once per entry when key is symbolic
                return i
        return -1

    def __contains__(self, key):
        return self._find(key) >= 0

    def __getitem__(self, key):
        i = self._find(key)
        if i < 0:
            raise KeyError(key)
        return self._p[i][1]

    def __setitem__(self, key, value):
        i = self._find(key)
        if i < 0:
            self._p.append((key, value))
        else:
            self._p[i] = (key, value)

    def __delitem__(self, key):
        i = self._find(key)
        if i < 0:
            raise KeyError(key)
        del self._p[i]

    def pop(self, key, *default):
        i = self._find(key)
        if i < 0:
            if default:
                return default[0]
            raise KeyError(key)
        v = self._p[i][1]
        del self._p[i]
        return v

    def get(self, key, default=None):
        i = self._find(key)
        return default if i < 0 else self._p[i][1]

    def items(self):
        return list(self._p)

    def keys(self):
        return [k for k, _v in self._p]

    def values(self):
        return [v for _k, v in self._p]

    def __iter__(self):
        return iter(self.keys())

    def __len__(self):
        return len(self._p)


def linear_streams(conn):
    """replace conn.streams by a LinearMap with the same content (symbolic mode only)"""
    if CTX.mode == 'sym':
        conn.streams = LinearMap(conn.streams.items())
    return conn


class OneKeyOracle:
    """_closed_streams as an oracle: whether the queried id `key` is remembered and how it
    was closed are solver choices (has, value); every OTHER id answers with an independent
    pair (ohas, ovalue), so code that looks up the wrong id is exposed.  Insertions are
    recorded (so 'no growth' can be asserted)."""

    def __init__(self, has, value, key=None, ohas=False, ovalue=None):
        self.key = key
        self.has = has
        self.value = value
        self.ohas = ohas
        self.ovalue = ovalue
        self.inserted = []

    def _lookup(self, key):
        for k, v in self.inserted:
            if k == key:
                return True, v
        if self.key is None or key == self.key:
            return bool(self.has), self.value
        return bool(self.ohas), self.ovalue

    def __contains__(self, key):
        return self._lookup(key)[0]

    def __getitem__(self, key):
        has, v = self._lookup(key)
        if not has:
            raise KeyError(key)
        return v

    def __setitem__(self, key, value):
        self.inserted.append((key, value))

    def __len__(self):
        return len(self.inserted) + (1 if self.has else 0) + (1 if self.ohas else 0)


def scan_streams_usage():
    """h2 must use conn.streams / conn._closed_streams through the mapping protocol only
    (subscript, in, .items/.values/.keys/.pop/.get, len, iteration)."""
    import h2
    src_dir = os.path.dirname(h2.__file__)
    ok_attrs = {'items', 'values', 'keys', 'pop', 'get'}
    bad = []
    n = 0
    for fn in ('connection.py',):
        tree = ast.parse(open(os.path.join(src_dir, fn)).read())
        parents = {}
        for node in ast.walk(tree):
            for ch in ast.iter_child_nodes(node):
                parents[ch] = node
        for node in ast.walk(tree):
            if isinstance(node, ast.Attribute) and node.attr in ('streams', '_closed_streams') \
                    and isinstance(node.value, ast.Name) and node.value.id == 'self':
                n += 1
                par = parents.get(node)
                if isinstance(par, ast.Subscript) and par.value is node:
                    continue
                if isinstance(par, ast.Compare):
                    continue
                if isinstance(par, ast.Attribute) and par.attr in ok_attrs:
                    continue
                if isinstance(par, ast.Assign) and node in par.targets:
                    continue
                if isinstance(par, ast.Call) and getattr(par.func, 'id', '') == 'len':
                    continue
                bad.append('%s:%d' % (fn, node.lineno))
    if bad:
        raise HarnessError("SymMap contract: streams/_closed_streams used outside the "
                           "mapping protocol at %s" % bad)
    return n
