"""Symbolic-execution driver: runs a harness function over every feasible path
under CrossHair's tracer (z3 behind it), with our own exploration loop so that we
see every path's status, the solver statistics and the complete model on a failure.

A *harness* is a plain zero-argument Python function.  It creates its symbolic
inputs with sym_int/sym_bool (constraints go straight onto the path's solver), runs
real h2 code and raises `Violation` (via `check`) when the property's oracle fails.
The same function runs natively (no tracer) when a MODEL is installed: sym_*
then return the model's concrete values -- that is how counterexamples are replayed.
"""
import sys
import time
import traceback
from collections import Counter

import z3

import crosshair.core_and_libs  # noqa: F401  (registers patches / opcode modules)
import crosshair.core as cc
from crosshair.core import Patched, ExceptionFilter, realize, deep_realize  # noqa: F401
from crosshair.condition_parser import condition_parser
from crosshair.options import AnalysisKind
from crosshair.statespace import (
    RootNode, StateSpace, StateSpaceContext, CallAnalysis, VerificationStatus,
    context_statespace,
)
from crosshair.tracers import (
    COMPOSITE_TRACER, NoTracing, ResumedTracing, is_tracing,
)
from crosshair.util import IgnoreAttempt, UnexploredPath, NotDeterministic
from crosshair.libimpl.builtinslib import SymbolicInt, SymbolicBool

INT31 = 2 ** 31 - 1
INT32 = 2 ** 32 - 1


class Violation(Exception):
    """The property's oracle failed on this path."""

    def __init__(self, clause, detail=None):
        Exception.__init__(self, clause)
        self.clause = clause
        self.detail = detail


class HarnessError(Exception):
    """The harness/model/adapter is wrong (never a finding)."""


# --------------------------------------------------------------------------
# per-path context
class _Ctx:
    mode = 'idle'          # 'sym' | 'native' | 'idle'
    registry = None        # list of (name, value) created on this path
    notes = None           # outcome labels noted on this path
    failures = None        # failed oracle clauses on this path
    model = None           # native mode: name -> concrete value
    defaults = None


CTX = _Ctx()
PATH_RESET_HOOKS = []      # callables run (untraced) at the start of every path / native run


def symbolic_mode():
    return CTX.mode == 'sym'


def _register(name, v):
    CTX.registry.append((name, v))
    return v


NAME_PREFIX = ['']      # prepended to every symbolic's name (frames built in a loop)


def sym_int(name, lo=None, hi=None, default=None):
    """A fresh integer in [lo, hi] (either bound may be None = unbounded)."""
    name = NAME_PREFIX[0] + name
    if CTX.mode == 'native':
        if name in CTX.model:
            v = CTX.model[name]
        else:
            v = default if default is not None else (lo if lo is not None else 0)
        assert (lo is None or v >= lo) and (hi is None or v <= hi), (name, v, lo, hi)
        CTX.registry.append((name, v))
        return v
    with NoTracing():
        space = context_statespace()
        v = SymbolicInt(name + space.uniq())
        if lo is not None:
            space.add(v.var >= lo)
        if hi is not None:
            space.add(v.var <= hi)
        _register(name, v)
    return v


def sym_bool(name, default=False):
    name = NAME_PREFIX[0] + name
    if CTX.mode == 'native':
        v = bool(CTX.model.get(name, default))
        CTX.registry.append((name, v))
        return v
    with NoTracing():
        space = context_statespace()
        v = SymbolicBool(name + space.uniq())
        _register(name, v)
    return v


def sym_choice(name, options, default=None):
    """One of a small list of concrete options, chosen by the solver (binary splitting:
    about log2(n) forks per path)."""
    i = sym_int(name, 0, len(options) - 1,
                default=(options.index(default) if default is not None else 0))
    lo, hi = 0, len(options) - 1
    while lo < hi:
        mid = (lo + hi) // 2
        if i <= mid:
            hi = mid
        else:
            lo = mid + 1
    return options[lo]


def assume(cond):
    """Constrain the path (no fork when cond is symbolic and satisfiable both ways
    would still fork; use only for cheap side conditions)."""
    if not cond:
        raise IgnoreAttempt("assume failed")


def assume_z(cond):
    """Add a constraint to the path without forking (symbolic mode); native mode: the
    model must satisfy it (models come from the solver, so it does)."""
    with NoTracing():
        if CTX.mode == 'sym' and _is_sym(cond):
            context_statespace().add(cond.var)
            return
    if not cond:
        raise IgnoreAttempt("assume failed")


def note(label):
    """Record a discrete outcome label for this path (evidence / vacuity guards)."""
    with NoTracing():
        CTX.notes.append(label)


def check(cond, clause, detail=None):
    """Assert one oracle clause; forks once if cond is symbolic.  A failing clause is
    recorded and the path continues, so that every clause is evaluated on every
    path; the path is reported as violating at its end (see _finish)."""
    if not cond:
        with NoTracing():
            CTX.failures.append((clause, detail))
        if len(CTX.failures) > 8:
            _finish()


def fail_now(clause, detail=None):
    with NoTracing():
        CTX.failures.append((clause, detail))
    _finish()


def _finish():
    if CTX.failures:
        clauses = sorted(set(c for c, _d in CTX.failures))
        raise Violation("+".join(clauses), [d for _c, d in CTX.failures if d is not None])


def zterm(x):
    """z3 term of an int/bool-like value (symbolic or concrete); call under NoTracing."""
    if isinstance(x, (SymbolicInt, SymbolicBool)):
        return x.var
    if isinstance(x, bool):
        return z3.BoolVal(x)
    if isinstance(x, int):
        return z3.IntVal(int(x))
    raise HarnessError("zterm: unsupported %r" % (type(x),))


def zbool(term):
    """Wrap a z3 Bool term as a value Python can branch on (one fork)."""
    if CTX.mode == 'native':
        return term
    return SymbolicBool(term)


# --------------------------------------------------------------------------
# solver statistics
class SolverStats:
    queries = 0
    seconds = 0.0


_orig_check = z3.Solver.check


def _counting_check(self, *a, **k):
    t = time.perf_counter()
    try:
        return _orig_check(self, *a, **k)
    finally:
        SolverStats.queries += 1
        SolverStats.seconds += time.perf_counter() - t


z3.Solver.check = _counting_check


# --------------------------------------------------------------------------
# message formatting must not realise symbolic values (h2 formats error text
# eagerly).  Contract: message text never influences behaviour; checked by
# engine.scan.fmt_scan on every run.
def _fmt_stub(self, other):
    with NoTracing():
        items = other if type(other) is tuple else (other,)
        plain = all(type(x) in (int, str, bytes, bool, float, type(None)) for x in items)
        if plain:
            return str.__mod__(self, other)
    return "<fmt>"


cc._PATCH_REGISTRATIONS[str.__mod__] = _fmt_stub


class Result:
    def __init__(self):
        self.status = 'inconclusive'   # confirmed | refuted | inconclusive | error
        self.reason = ''
        self.paths = 0
        self.confirmed_paths = 0
        self.refuted_paths = 0
        self.unknown_paths = 0
        self.ignored_paths = 0
        self.outcomes = Counter()
        self.cex = []                  # list of {model, clause, detail, exc, tb, notes}
        self.samples = []              # list of {model, notes} of confirmed paths
        self.tb = None
        self.queries = 0
        self.solver_s = 0.0
        self.wall_s = 0.0
        self.exhausted = False

    def as_dict(self):
        d = dict(self.__dict__)
        d['outcomes'] = {"|".join(map(str, k)): v for k, v in self.outcomes.items()}
        return d


def _plain(v):
    if isinstance(v, (bool, int, str, type(None))):
        return v
    if isinstance(v, bytes):
        return {'bytes_hex': v.hex()}
    if isinstance(v, (list, tuple)):
        return [_plain(x) for x in v]
    return repr(v)


def _realize_registry():
    out = {}
    for name, v in CTX.registry:
        try:
            out[name] = _plain(deep_realize(v))
        except Exception as e:  # pragma: no cover
            out[name] = "<unrealizable %s>" % e
    return out


def explore(fn, budget_s=60.0, per_path_timeout=20.0, max_paths=10 ** 7,
            max_cex=6, n_samples=2):
    """Explore every path of fn().  Paths that violate are collected (up to max_cex
    distinct clause sets) and exploration continues, so that a known finding does not
    mask another violation in the same shard."""
    res = Result()
    q0, s0 = SolverStats.queries, SolverStats.seconds
    t0 = time.perf_counter()
    cpu0 = time.process_time()
    search_root = RootNode()
    exhausted = False
    seen_clauses = set()
    sampled_notes = set()
    CTX.mode = 'sym'
    try:
        for _i in range(max_paths):
            now = time.process_time()
            if now - cpu0 > budget_s:
                res.reason = 'budget %.0fs exhausted after %d paths' % (budget_s, res.paths)
                break
            res.paths += 1
            CTX.registry = []
            CTX.notes = []
            CTX.failures = []
            for hook in PATH_RESET_HOOKS:
                hook()
            space = StateSpace(
                execution_deadline=now + per_path_timeout,
                model_check_timeout=per_path_timeout / 2,
                search_root=search_root,
            )
            status = None
            with condition_parser([AnalysisKind.PEP316]), Patched(), \
                    COMPOSITE_TRACER, NoTracing(), StateSpaceContext(space):
                try:
                    with ExceptionFilter() as efilter, ResumedTracing():
                        fn()
                        _finish()
                    if efilter.user_exc is not None:
                        exc = efilter.user_exc[0]
                        if isinstance(exc, NotDeterministic):
                            raise exc
                        if isinstance(exc, HarnessError):
                            res.status = 'error'
                            res.reason = 'HarnessError: %s' % exc
                            res.tb = "".join(traceback.format_list(efilter.user_exc[1][-6:]))
                            return res
                        res.refuted_paths += 1
                        if isinstance(exc, Violation):
                            clause = exc.clause
                        else:
                            clause = "+".join(sorted(set(
                                [c for c, _d in CTX.failures] +
                                ['unexpected:' + type(exc).__name__])))
                        key = (clause, tuple(CTX.notes))
                        if key not in seen_clauses and len(res.cex) < max_cex:
                            seen_clauses.add(key)
                            # failing path: complete model before leaving the space
                            with ResumedTracing():
                                space.detach_path(exc)
                                model = _realize_registry()
                            entry = {'model': model, 'clause': clause,
                                     'exc': type(exc).__name__ + ": " + str(exc)[:300],
                                     'notes': list(CTX.notes), 'detail': None, 'tb': None}
                            if isinstance(exc, Violation):
                                try:
                                    entry['detail'] = repr(deep_realize(exc.detail))[:600]
                                except Exception:
                                    pass
                            else:
                                entry['tb'] = "".join(
                                    traceback.format_list(efilter.user_exc[1][-5:]))
                            res.cex.append(entry)
                        status = VerificationStatus.REFUTED
                    elif efilter.ignore:
                        res.ignored_paths += 1
                        status = None
                    else:
                        status = VerificationStatus.CONFIRMED
                        res.confirmed_paths += 1
                        k = tuple(CTX.notes)
                        res.outcomes[k] += 1
                        if k not in sampled_notes and len(res.samples) < n_samples:
                            sampled_notes.add(k)
                            with ResumedTracing():
                                space.detach_path()
                                res.samples.append({'model': _realize_registry(),
                                                    'notes': list(k)})
                except IgnoreAttempt:
                    res.ignored_paths += 1
                    status = None
                except UnexploredPath as e:
                    res.unknown_paths += 1
                    res.reason = 'unexplored path: %s' % type(e).__name__
                    status = VerificationStatus.UNKNOWN
                # a refuted leaf is recorded as CONFIRMED in the tree so that the
                # search goes on to the remaining paths (we keep our own tally)
                tree_status = (VerificationStatus.CONFIRMED
                               if status == VerificationStatus.REFUTED else status)
                _analysis, exhausted = space.bubble_status(CallAnalysis(tree_status))
            if exhausted:
                break
            if len(res.cex) >= max_cex:
                res.reason = 'stopped after %d distinct violations' % max_cex
                break
        res.exhausted = exhausted
        if res.refuted_paths:
            res.status = 'refuted'
        elif exhausted and res.unknown_paths == 0 and res.confirmed_paths > 0:
            res.status = 'confirmed'
            if res.ignored_paths:
                res.reason = '%d paths cut by assume()' % res.ignored_paths
        else:
            res.status = 'inconclusive'
            if not res.reason:
                res.reason = 'not exhausted'
    except NotDeterministic as e:
        res.status = 'error'
        res.reason = 'NotDeterministic: %s' % e
    except BaseException as e:   # CrossHair internal problems
        res.status = 'error'
        res.reason = '%s: %s' % (type(e).__name__, str(e)[:300])
        res.tb = traceback.format_exc()[-1500:]
    finally:
        CTX.mode = 'idle'
        res.queries = SolverStats.queries - q0
        res.solver_s = SolverStats.seconds - s0
        res.wall_s = time.perf_counter() - t0
    return res


def _unplain(v):
    if isinstance(v, dict) and 'bytes_hex' in v:
        return bytes.fromhex(v['bytes_hex'])
    return v


def run_native(fn, model=None, profile=None):
    """Run the harness natively with the given model.
    Returns (ok, clause, detail, notes)."""
    CTX.mode = 'native'
    CTX.model = {k: _unplain(v) for k, v in dict(model or {}).items()}
    CTX.registry = []
    CTX.notes = []
    CTX.failures = []
    for hook in PATH_RESET_HOOKS:
        hook()
    if profile is not None:
        sys.setprofile(profile)
    try:
        fn()
        _finish()
        return True, None, None, list(CTX.notes)
    except Violation as v:
        return False, v.clause, repr(v.detail)[:600], list(CTX.notes)
    except IgnoreAttempt:
        return True, 'assume-failed', None, list(CTX.notes)
    except Exception as e:
        clause = "+".join(sorted(set([c for c, _d in CTX.failures] +
                                     ['unexpected:' + type(e).__name__])))
        return False, clause, traceback.format_exc()[-800:], list(CTX.notes)
    finally:
        if profile is not None:
            sys.setprofile(None)
        CTX.mode = 'idle'


# --------------------------------------------------------------------------
# branch-free combinators (DESIGN.md 3.2): one z3 term, no Python-level forks.
def _is_sym(x):
    return isinstance(x, (SymbolicInt, SymbolicBool))


def _lift(op, args):
    with NoTracing():
        if CTX.mode != 'sym' or not any(_is_sym(a) for a in args):
            return None
        return [zterm(a) for a in args]


def s_and(*xs):
    with NoTracing():
        z = _lift(None, xs)
        if z is None:
            return all(bool(x) for x in xs)
        return SymbolicBool(z3.And(*z))


def s_or(*xs):
    with NoTracing():
        z = _lift(None, xs)
        if z is None:
            return any(bool(x) for x in xs)
        return SymbolicBool(z3.Or(*z))


def s_not(x):
    with NoTracing():
        z = _lift(None, (x,))
        if z is None:
            return not x
        return SymbolicBool(z3.Not(z[0]))


def _cmp(a, b, f, g):
    with NoTracing():
        z = _lift(None, (a, b))
        if z is None:
            return f(a, b)
        return SymbolicBool(g(z[0], z[1]))


def s_eq(a, b):
    return _cmp(a, b, lambda x, y: x == y, lambda x, y: x == y)


def s_ne(a, b):
    return _cmp(a, b, lambda x, y: x != y, lambda x, y: x != y)


def s_le(a, b):
    return _cmp(a, b, lambda x, y: x <= y, lambda x, y: x <= y)


def s_lt(a, b):
    return _cmp(a, b, lambda x, y: x < y, lambda x, y: x < y)


def s_ge(a, b):
    return s_le(b, a)


def s_gt(a, b):
    return s_lt(b, a)


def s_between(lo, x, hi):
    return s_and(s_le(lo, x), s_le(x, hi))


def s_ite(c, a, b):
    """if-then-else over ints (or bools) without forking."""
    with NoTracing():
        if CTX.mode != 'sym' or not any(_is_sym(v) for v in (c, a, b)):
            return a if c else b
        if not _is_sym(c):
            return a if c else b
        za, zb = zterm(a), zterm(b)
        t = z3.If(c.var, za, zb)
        if z3.is_bool(t):
            return SymbolicBool(t)
        return SymbolicInt(t)


def s_min(a, b):
    return s_ite(s_le(a, b), a, b)


def s_iff(a, b):
    with NoTracing():
        z = _lift(None, (a, b))
        if z is None:
            return bool(a) == bool(b)
        return SymbolicBool(z[0] == z[1])


def s_implies(a, b):
    return s_or(s_not(a), b)


def is_symbolic(x):
    with NoTracing():
        return _is_sym(x)
