"""Independent RFC 7540 section 8.1.2 predicate over a header list whose names/values may
be CellBytes.  Branch-free: the verdict is one z3 term (or a Python bool when everything
is concrete).  Written from the RFC / the property statement, not from h2.utilities."""
import z3
from crosshair.libimpl.builtinslib import SymbolicBool, SymbolicInt
from crosshair.tracers import NoTracing

from .cellbytes import CellBytes, _z, WS
from .core import s_and, s_or, s_not, s_implies

CONNECTION_SPECIFIC = [b'connection', b'proxy-connection', b'keep-alive', b'transfer-encoding',
                       b'upgrade']
PSEUDO = [b':method', b':scheme', b':authority', b':path', b':status', b':protocol']
REQUEST_PSEUDO = [b':method', b':scheme', b':authority', b':path', b':protocol']


def cells(x):
    with NoTracing():
        if type(x) is CellBytes:
            return list(x.cells)
        if isinstance(x, str):
            return list(x.encode('utf-8'))
        return list(x)


def eqc(x, const):
    """x == const (const: real bytes) as bool / SymbolicBool"""
    xc = cells(x)
    if len(xc) != len(const):
        return False
    with NoTracing():
        if all(type(c) is int for c in xc):
            return bytes(xc) == const
        return SymbolicBool(z3.And(*[_z(a) == b for a, b in zip(xc, const)]))


def eqx(x, y):
    xc, yc = cells(x), cells(y)
    if len(xc) != len(yc):
        return False
    with NoTracing():
        if all(type(c) is int for c in xc + yc):
            return xc == yc
        if not xc:
            return True
        return SymbolicBool(z3.And(*[_z(a) == _z(b) for a, b in zip(xc, yc)]))


def cell_in(c, ints):
    with NoTracing():
        if type(c) is int:
            return c in ints
        return SymbolicBool(z3.Or(*[_z(c) == i for i in sorted(ints)]))


def cell_between(c, lo, hi):
    with NoTracing():
        if type(c) is int:
            return lo <= c <= hi
        return SymbolicBool(z3.And(_z(c) >= lo, _z(c) <= hi))


def lower_eq(x, const):
    """x.lower() == const (const already lower case)"""
    xc = cells(x)
    if len(xc) != len(const):
        return False
    terms = []
    for c, k in zip(xc, const):
        if 97 <= k <= 122:
            terms.append(s_or(eq_int(c, k), eq_int(c, k - 32)))
        else:
            terms.append(eq_int(c, k))
    return s_and(*terms) if terms else True


def eq_int(c, k):
    with NoTracing():
        if type(c) is int:
            return c == k
        return SymbolicBool(_z(c) == k)


def starts_colon(x):
    xc = cells(x)
    if not xc:
        return False
    return eq_int(xc[0], 58)


def any_(terms):
    terms = list(terms)
    return s_or(*terms) if terms else False


def all_(terms):
    terms = list(terms)
    return s_and(*terms) if terms else True


def count_le_one(flags):
    """at most one of the flags is true"""
    flags = list(flags)
    out = []
    for i in range(len(flags)):
        for j in range(i + 1, len(flags)):
            out.append(s_not(s_and(flags[i], flags[j])))
    return all_(out)


def conformant(headers, kind, check_whitespace=True, check_names=True):
    """kind in request | response | informational | trailers | push.
    Returns the conformance verdict of RFC 7540 8.1.2 for a RECEIVED block."""
    hs = [(n, v) for n, v in headers]
    oks = []
    pseudo = [starts_colon(n) for n, _v in hs]
    is_p = dict((p, [eqc(n, p) for n, _v in hs]) for p in PSEUDO)
    for i, (n, v) in enumerate(hs):
        nc, vc = cells(n), cells(v)
        # 8.1.2: field names are non-empty, lower case, no surrounding whitespace
        oks.append(len(nc) > 0)
        if not nc:
            continue
        oks.append(all_(s_not(cell_between(c, 65, 90)) for c in nc))
        oks.append(s_not(cell_in(nc[0], WS)))
        oks.append(s_not(cell_in(nc[-1], WS)))
        if vc:
            oks.append(s_not(cell_in(vc[0], WS)))
            oks.append(s_not(cell_in(vc[-1], WS)))
        # 8.1.2.2 connection-specific header fields
        oks.append(s_not(any_(eqc(n, c) for c in CONNECTION_SPECIFIC)))
        oks.append(s_implies(eqc(n, b'te'), lower_eq(v, b'trailers')))
        # 8.1.2.1 pseudo-header fields: only the defined ones ...
        oks.append(s_implies(pseudo[i], any_(is_p[p][i] for p in PSEUDO)))
        # ... before all regular fields
        for j in range(i):
            oks.append(s_not(s_and(pseudo[i], s_not(pseudo[j]))))
    # ... each at most once
    for p in PSEUDO:
        oks.append(count_le_one(is_p[p]))
    present = dict((p, any_(is_p[p])) for p in PSEUDO)
    if kind == 'trailers':
        oks.append(s_not(any_(pseudo)))
    elif kind in ('response', 'informational'):
        oks.append(present[b':status'])
        oks.append(s_not(any_(present[p] for p in REQUEST_PSEUDO)))
    else:
        oks.append(present[b':method'])
        oks.append(present[b':scheme'])
        oks.append(present[b':path'])
        oks.append(s_not(present[b':status']))
        connect = any_(s_and(is_p[b':method'][i], eqc(v, b'CONNECT'))
                       for i, (_n, v) in enumerate(hs))
        oks.append(s_implies(present[b':protocol'], connect))
        # :path not empty
        for i, (_n, v) in enumerate(hs):
            oks.append(s_implies(is_p[b':path'][i], len(cells(v)) > 0))
        # :authority or Host, and they agree
        is_host = [eqc(n, b'host') for n, _v in hs]
        oks.append(s_or(present[b':authority'], any_(is_host)))
        for i, (_n, vi) in enumerate(hs):
            for j, (_m, vj) in enumerate(hs):
                oks.append(s_implies(s_and(is_p[b':authority'][i], is_host[j]), eqx(vi, vj)))
    return all_(oks)
