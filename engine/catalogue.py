"""Catalogue of reachable discrete states (DESIGN.md 4.2): native breadth-first
exploration of an operation alphabet; every entry is a witness history."""
import copy
import time

from . import ops, fingerprint


def state_key(ctx):
    return (fingerprint.fingerprint(ctx.me), ctx.obs.key(), ctx.mon.key())


def build(client, alphabet, max_depth, upgrade=False, cfg=None, limit=5000, roots=None,
          time_limit=None):
    """returns (entries, closed): entries = list of (history, depth) in BFS order; closed
    tells whether the frontier emptied (every successor already known)"""
    t0 = time.time()
    root = ops.Ctx(client, cfg=cfg, upgrade=upgrade)
    for op in (roots or []):
        ops.run_op(root, op)
        root.me.data_to_send()
    seen = {state_key(root): 0}
    entries = [(list(root.history), 0)]
    frontier = [root]
    depth = 0
    closed = False
    while frontier and depth < max_depth and len(entries) < limit:
        depth += 1
        nxt = []
        for ctx in frontier:
            for op in alphabet:
                c2 = copy.deepcopy(ctx)
                o = ops.run_op(c2, op)
                c2.me.data_to_send()
                if o.cls[0] in ('refused', 'crash'):
                    # witness histories consist of successful local calls (and any peer
                    # frames): what a refused call leaves behind is examined by the step
                    # harness ('refused call changes state'), not explored further
                    continue
                k = state_key(c2)
                if k not in seen:
                    seen[k] = depth
                    entries.append((list(c2.history), depth))
                    nxt.append(c2)
                    if len(entries) >= limit:
                        break
            if len(entries) >= limit or (time_limit and time.time() - t0 > time_limit):
                break
        frontier = nxt
        if time_limit and time.time() - t0 > time_limit:
            break
    else:
        closed = not frontier
    return entries, closed, set(seen)
