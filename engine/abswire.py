"""AbsWire / HfParse (DESIGN.md 3.3): the CONTENT of the inbound byte stream is abstract --
a sequence of frames with symbolic body lengths, cut at symbolic positions -- while the
real h2.frame_buffer.FrameBuffer and H2Connection.receive_data run unmodified on it.

WireBytes(lo, hi) supports exactly what FrameBuffer does with bytes: len, slicing,
concatenation of adjacent pieces.  Frame.parse_frame_header and <FrameClass>.parse_body are
modelled: the header parse returns the prepared frame whose start offset equals the view's
start; the body parse either keeps the prepared (contract-conforming, otherwise arbitrary)
field values or raises the parser exception chosen for that frame."""
import crosshair.core as cc
from crosshair.core import register_patch
from crosshair.tracers import NoTracing
from hyperframe import frame as hf
import hyperframe.exceptions as hx

from . import core, models
from .core import HarnessError


class Wire:
    def __init__(self, frames, parse_excs=None, len_overrides=None):
        """frames: prepared hyperframe objects (fields may be symbolic); parse_excs: per
        frame None or an exception class that parse_body raises"""
        self.frames = list(frames)
        self.excs = list(parse_excs or [None] * len(self.frames))
        self.lens = [models.model_body_len(f) for f in self.frames]
        for i, L in (len_overrides or {}).items():
            self.lens[i] = L
        self.offsets = []
        off = 0
        for L in self.lens:
            self.offsets.append(off)
            off = off + 9 + L
        self.total = off

    def view(self, lo=0, hi=None):
        return WireBytes(self, lo, self.total if hi is None else hi)


class WireBytes:
    def __init__(self, wire, lo, hi):
        self.wire = wire
        self.lo = lo
        self.hi = hi

    def __ch_pytype__(self):
        return bytes

    def __len__(self):
        return self.hi - self.lo

    def __bool__(self):
        if self.hi - self.lo != 0:
            return True
        return False

    def __getitem__(self, k):
        if not isinstance(k, slice) or k.step not in (None, 1):
            raise HarnessError("WireBytes content inspected")
        n = self.hi - self.lo
        start = 0 if k.start is None else k.start
        stop = n if k.stop is None else k.stop
        if start < 0 or stop < 0:
            raise HarnessError("WireBytes negative slice")
        if start > n:
            start = n
        if stop > n:
            stop = n
        if stop < start:
            stop = start
        return WireBytes(self.wire, self.lo + start, self.lo + stop)

    def _join(self, left, right):
        if len(left) == 0:
            return right
        if len(right) == 0:
            return left
        with NoTracing():
            both = type(left) is WireBytes and type(right) is WireBytes
        if not both:
            raise HarnessError("WireBytes concatenated with real bytes")
        if left.hi != right.lo:
            raise HarnessError("WireBytes pieces are not adjacent")
        return WireBytes(self.wire, left.lo, right.hi)

    def __add__(self, other):
        return self._join(self, other)

    def __radd__(self, other):
        return self._join(other, self)

    def __eq__(self, other):
        raise HarnessError("WireBytes content compared")

    __hash__ = None

    def tobytes(self):
        return self


def _is_wire(x):
    with NoTracing():
        return type(x) is WireBytes


# ------------------------------------------------------------------ parser model
_real_header = hf.Frame.parse_frame_header


def _m_parse_frame_header(header, strict=False):
    if not _is_wire(header):
        return _real_header(header, strict)
    w = header.wire
    if len(header) != 9:
        raise hx.InvalidFrameError("Invalid frame header")
    for i, off in enumerate(w.offsets):
        if header.lo == off:
            return w.frames[i], w.lens[i]
    raise HarnessError("frame header parsed at a position that is not a frame boundary")


register_patch(hf.Frame.parse_frame_header, _m_parse_frame_header)


def _mk_parse_body(cls):
    real = cls.__dict__['parse_body']
    prev = cc._PATCH_REGISTRATIONS.get(real)

    def _m_parse_body(self, data):
        if not _is_wire(data):
            if prev is not None:
                return prev(self, data)
            return real(self, data)
        w = data.wire
        for i, f in enumerate(w.frames):
            if f is self:
                if len(data) != w.lens[i] or data.lo != w.offsets[i] + 9:
                    raise HarnessError("body of frame %d parsed from the wrong slice" % i)
                exc = w.excs[i]
                if exc is not None:
                    raise exc("model")
                self.body_len = w.lens[i]
                return None
        raise HarnessError("parse_body on a frame that is not part of the wire")
    _m_parse_body.__name__ = '_m_parse_body_' + cls.__name__
    cc._PATCH_REGISTRATIONS[real] = _m_parse_body


for _cls in (hf.DataFrame, hf.HeadersFrame, hf.PriorityFrame, hf.RstStreamFrame, hf.SettingsFrame,
             hf.PushPromiseFrame, hf.PingFrame, hf.GoAwayFrame, hf.WindowUpdateFrame,
             hf.ContinuationFrame, hf.AltSvcFrame, hf.ExtensionFrame):
    _mk_parse_body(_cls)


_prev_memoryview = cc._PATCH_REGISTRATIONS.get(memoryview)


def _m_memoryview(obj):
    if _is_wire(obj):
        return obj
    with NoTracing():
        if type(obj) in (bytes, bytearray, memoryview):
            return memoryview(obj)          # the real builtin (tracer off: no re-entry)
    if _prev_memoryview is not None:
        raise HarnessError("memoryview of a symbolic value next to AbsWire")
    return memoryview(obj)


cc._PATCH_REGISTRATIONS[memoryview] = _m_memoryview

# exceptions the real parse_body of each class can raise (HfParse contract, validated)
PARSE_EXCS = {
    'DataFrame': [hx.InvalidFrameError, hx.InvalidPaddingError],
    'HeadersFrame': [hx.InvalidFrameError, hx.InvalidPaddingError],
    'PriorityFrame': [hx.InvalidFrameError],
    'RstStreamFrame': [hx.InvalidFrameError],
    'SettingsFrame': [hx.InvalidFrameError, hx.InvalidDataError],
    'PushPromiseFrame': [hx.InvalidFrameError, hx.InvalidDataError, hx.InvalidPaddingError],
    'PingFrame': [hx.InvalidFrameError],
    'GoAwayFrame': [hx.InvalidFrameError],
    'WindowUpdateFrame': [hx.InvalidFrameError, hx.InvalidDataError],
    'ContinuationFrame': [],
    'AltSvcFrame': [hx.InvalidFrameError],
    'ExtensionFrame': [],
}


def validate_parse_table():
    """boundary bodies through the REAL parser: whatever it raises must be in PARSE_EXCS"""
    import struct
    n = 0
    bodies = [b'', b'\x00', b'\x00' * 3, b'\x00' * 4, b'\x00' * 5, b'\x00' * 6, b'\x00' * 8,
              b'\x00' * 9, b'\xff' * 4, b'\xff' * 5, b'\xff' * 8, b'\x80\x00\x00\x00',
              b'\x00\x00\x00\x01', b'\x00\x05abc', b'\x05a', b'\xffabc']
    for typ, cls in hf.FRAMES.items():
        for flags in (0x00, 0x01, 0x08, 0x20, 0x28, 0x04):
            for body in bodies:
                sid = 0 if cls.stream_association == 'no-stream' else 1
                hdr = struct.pack(">HBBBL", len(body) >> 8, len(body) & 0xFF, typ, flags, sid)
                try:
                    f, length = hf.Frame.parse_frame_header(memoryview(hdr))
                except (hx.InvalidFrameError, hx.InvalidDataError):
                    continue
                try:
                    f.parse_body(memoryview(body))
                except Exception as e:      # noqa
                    if type(e) not in PARSE_EXCS[cls.__name__]:
                        raise HarnessError("HfParse contract: %s.parse_body raised %s on %r "
                                           "(flags %#x)" % (cls.__name__, type(e).__name__, body,
                                                            flags))
                n += 1
    return n


def clone_frame(f):
    """a fresh frame object with the same (possibly symbolic) field values"""
    cls = type(f)
    if cls is hf.ExtensionFrame:
        g = hf.ExtensionFrame(f.type, f.stream_id)
    else:
        g = cls(f.stream_id)
    for k, v in f.__dict__.items():
        if k == 'flags':
            for fl in f.flags:
                g.flags.add(fl)
        elif k == 'settings':
            g.settings = dict(v)
        else:
            setattr(g, k, v)
    return g
