"""Generic state snapshots / fingerprints of h2 connection objects (DESIGN.md 4.2).

snapshot(conn) walks the object graph and returns {path: value} for every scalar
(ints, enums, bools, None, short bytes); it does not name attributes, so renaming
refactors do not break it and new attributes refine it automatically.
same(a, b) compares two snapshots without forking per attribute.
fingerprint(conn) abstracts every non-id integer to 'INT' (discrete shape only)."""
import collections
import enum

from crosshair.tracers import NoTracing

from . import core
from .core import s_and, s_eq

SKIP_ATTRS = {'encoder', 'decoder', 'config', '_frame_dispatch_table', 'logger',
              '_data_to_send'}
ID_ATTRS = {'stream_id', 'highest_inbound_stream_id', 'highest_outbound_stream_id'}


def _walk(obj, path, out, depth=0):
    if depth > 8:
        return
    with NoTracing():
        sym = core._is_sym(obj)
        t = type(obj)
    if sym or obj is None or t in (int, bool, str, bytes):
        out[path] = obj
        return
    if isinstance(obj, enum.Enum):
        out[path] = obj
        return
    if t is bytearray or t is memoryview:
        out[path] = len(obj)
        return
    if isinstance(obj, (list, tuple, collections.deque)):
        out[path + '#len'] = len(obj)
        for i, x in enumerate(obj):
            _walk(x, '%s[%d]' % (path, i), out, depth + 1)
        return
    if isinstance(obj, dict) or hasattr(obj, 'items') and hasattr(obj, 'keys') and \
            not hasattr(obj, '__dict__'):
        keys = list(obj.keys())
        out[path + '#keys'] = tuple(sorted(keys, key=repr))
        for k in keys:
            _walk(obj[k], '%s{%r}' % (path, k), out, depth + 1)
        return
    if hasattr(obj, '_settings') and hasattr(obj, 'acknowledge'):   # h2 Settings
        _walk(obj._settings, path + '._settings', out, depth + 1)
        return
    if isinstance(obj, dict):
        return
    d = getattr(obj, '__dict__', None)
    if d is None:
        if isinstance(obj, (set, frozenset)):
            out[path] = tuple(sorted(obj, key=repr))
        return
    for k in sorted(d):
        if k in SKIP_ATTRS:
            continue
        v = d[k]
        with NoTracing():
            symv = core._is_sym(v)
            skip = (not symv) and callable(v) and not hasattr(v, '__dict__')
        if symv:
            out[path + '.' + k] = v
            continue
        if skip:
            continue
        _walk(v, path + '.' + k, out, depth + 1)


def snapshot(conn):
    out = {}
    _walk(conn, 'conn', out)
    with NoTracing():
        inc = getattr(conn, 'incoming_buffer', None)
    return out


def same(a, b):
    """branch-free equality of two snapshots (symbolic-aware); returns (value, diffs)
    where diffs lists paths that differ concretely"""
    diffs = []
    terms = []
    for k in sorted(set(a) | set(b)):
        if k not in a or k not in b:
            diffs.append(k)
            continue
        x, y = a[k], b[k]
        with NoTracing():
            symbolic = core._is_sym(x) or core._is_sym(y)
        if symbolic:
            terms.append(s_eq(x, y))
        else:
            if type(x) is not type(y) or x != y:
                diffs.append(k)
    if diffs:
        return False, diffs
    if not terms:
        return True, []
    return s_and(*terms), []


def fingerprint(conn):
    """discrete shape: ints that are not ids are abstracted to 'INT'"""
    snap = snapshot(conn)
    out = []
    for k in sorted(snap):
        v = snap[k]
        with NoTracing():
            sym = core._is_sym(v)
        last = k.rsplit('.', 1)[-1]
        if sym:
            v = 'INT'
        elif type(v) is int and last not in ID_ATTRS and not k.endswith('#len'):
            v = 'INT'
        out.append((k, v))
    return tuple(out)
