"""Operation alphabet of the state-machine properties (DESIGN.md 4.2): public API calls
on one endpoint and frames delivered to it, executed either natively (witness replay,
concrete default arguments) or symbolically (numeric arguments are solver variables)."""
import hpack
from hyperframe import frame as hf

import h2.events
import h2.exceptions
from h2.errors import ErrorCodes

from . import core, h2h, models
from .core import CTX, sym_int, HarnessError
from .models import sym_bytes
from .observer import Observer
from .monitors import EventMonitor

KIND_HEADERS = {
    'req': h2h.REQ, 'post': h2h.REQ_POST, 'head': h2h.REQ_HEAD, 'resp': h2h.RESP,
    'info': h2h.INFO, 'trailers': h2h.TRAILERS, 'bad': h2h.BAD, 'resp204': h2h.RESP204,
    'reqhost': h2h.REQ_HOSTONLY, 'noauth': h2h.REQ_NOAUTH, 'hostmismatch': h2h.REQ_HOSTMISMATCH,
    'emptypath': h2h.REQ_EMPTYPATH,
}


class Ctx:
    """one endpoint under test + what the peer needs to talk to it"""

    def __init__(self, client, cfg=None, upgrade=False):
        self.client = client
        self.me = h2h.conn(client, **(cfg or {}))
        self.obs = Observer(client)
        self.mon = EventMonitor(client)
        self.peer_enc = hpack.Encoder()
        self.history = []
        if upgrade:
            if client:
                self.me.initiate_upgrade_connection()
            else:
                self.me.initiate_upgrade_connection(b'')
            v = self.obs._get(1)
            v.st = 'half-closed(local)' if client else 'half-closed(remote)'
            v.requester = client
            v.hs = client
            v.hr = not client
            if client:
                self.obs.highest_out = 1
            else:
                self.obs.highest_in = 1
                self.mon.phase[1] = 'headers'     # the HTTP/1.1 request was the request
                self.mon.ended.add(1)
        else:
            self.me.initiate_connection()
        # peer's preface + SETTINGS, and its ACK of ours
        pre = b'PRI * HTTP/2.0\r\n\r\nSM\r\n\r\n' if not client else b''
        s = hf.SettingsFrame(0)
        a = hf.SettingsFrame(0)
        a.flags.add('ACK')
        self.me.receive_data(pre + s.serialize() + a.serialize())
        self.me.data_to_send()


class Outcome:
    def __init__(self, op):
        self.op = op
        self.exc = None
        self.events = []
        self.frames = []
        self.cls = None           # see classify()
        self.sent_frame = None    # the peer frame delivered (frame ops)
        self.kind = None
        self.grammar = []         # event-grammar clauses violated by the returned events
        self.cleared = False

    def classify(self):
        is_frame = self.op[0].isupper()
        if self.exc is not None:
            if isinstance(self.exc, h2.exceptions.ProtocolError):
                code = self.exc.error_code
                self.cls = ('conn_error', int(code)) if is_frame else ('refused', 'ProtocolError')
            elif isinstance(self.exc, h2.exceptions.H2Error):
                self.cls = ('refused', type(self.exc).__name__)
            elif isinstance(self.exc, (ValueError, TypeError)) and not is_frame:
                self.cls = ('refused', type(self.exc).__name__)
            else:
                self.cls = ('crash', type(self.exc).__name__)
            return self.cls
        if is_frame:
            rst = [f for f in self.frames if isinstance(f, hf.RstStreamFrame)]
            if rst:
                self.cls = ('stream_error', int(rst[0].error_code), rst[0].stream_id)
            else:
                self.cls = ('accept',)
        else:
            self.cls = ('ok',)
        return self.cls


def _sv(name, lo, hi, default):
    return sym_int(name, lo, hi, default=default)


def build_frame(ctx, op, symbolic):
    """hyperframe object for a frame op"""
    t = op[0]
    if t == 'HEADERS':
        _t, sid, kind, end = op
        f = hf.HeadersFrame(sid)
        with h2h.native():
            f.data = ctx.peer_enc.encode(KIND_HEADERS[kind])
        f.flags.add('END_HEADERS')
        if end:
            f.flags.add('END_STREAM')
        return f
    if t == 'DATA':
        _t, sid, end = op
        f = hf.DataFrame(sid)
        f.data = sym_bytes('dlen', 0, 1000, default=5) if symbolic else b'hello'
        if end:
            f.flags.add('END_STREAM')
        return f
    if t == 'HEADERSP':         # HEADERS with padding and priority fields
        _t, sid, kind, end = op
        f = hf.HeadersFrame(sid)
        with h2h.native():
            f.data = ctx.peer_enc.encode(KIND_HEADERS[kind])
        f.flags.add('END_HEADERS')
        f.flags.add('PADDED')
        f.flags.add('PRIORITY')
        f.pad_length = _sv('pad', 0, 255, 3) if symbolic else 3
        f.depends_on = _sv('dep', 0, core.INT31, 0) if symbolic else 0
        f.stream_weight = _sv('w', 0, 255, 15) if symbolic else 15
        f.exclusive = False
        if end:
            f.flags.add('END_STREAM')
        return f
    if t == 'DATAP':            # padded DATA
        _t, sid, end = op
        f = hf.DataFrame(sid)
        f.data = sym_bytes('dlen', 0, 1000, default=5) if symbolic else b'hello'
        f.flags.add('PADDED')
        f.pad_length = _sv('pad', 0, 255, 7) if symbolic else 7
        if end:
            f.flags.add('END_STREAM')
        return f
    if t == 'RST':
        f = hf.RstStreamFrame(op[1])
        f.error_code = _sv('code', 0, core.INT32, 8) if symbolic else 8
        return f
    if t == 'WU':
        f = hf.WindowUpdateFrame(op[1])
        if len(op) > 2:         # ('WU', sid, 'over'): an increment that overflows any window
            f.window_increment = core.INT31
        else:
            f.window_increment = _sv('inc', 1, 1000, 10) if symbolic else 10
        return f
    if t == 'PP':
        _t, parent, promised = op
        f = hf.PushPromiseFrame(parent)
        f.promised_stream_id = promised
        with h2h.native():
            f.data = ctx.peer_enc.encode(h2h.REQ_PUSHED)
        f.flags.add('END_HEADERS')
        return f
    if t == 'CONT':
        f = hf.ContinuationFrame(op[1])
        f.data = b''
        f.flags.add('END_HEADERS')
        return f
    if t == 'ALTSVC':
        _t, sid, with_origin = op
        f = hf.AltSvcFrame(sid)
        f.origin = b'example.org' if with_origin else b''
        f.field = b'h2=":8000"'
        return f
    if t == 'PRIORITY':
        f = hf.PriorityFrame(op[1])
        f.depends_on = 0
        f.stream_weight = _sv('w', 0, 255, 15) if symbolic else 15
        return f
    if t == 'PING':
        f = hf.PingFrame(0)
        f.opaque_data = b'12345678'
        if op[1]:
            f.flags.add('ACK')
        return f
    if t == 'SETTINGS':
        f = hf.SettingsFrame(0)
        if op[1]:
            f.flags.add('ACK')
        return f
    if t == 'GOAWAY':
        f = hf.GoAwayFrame(0)
        f.error_code = _sv('gcode', 0, core.INT32, 0) if symbolic else 0
        f.last_stream_id = _sv('glast', 0, core.INT31, 0) if symbolic else 0
        return f
    if t == 'UNKNOWN':
        f = hf.ExtensionFrame(0xFA, op[1])
        f.body = b'xx'
        f.body_len = 2
        return f
    raise HarnessError("unknown frame op %r" % (op,))


def call_api(ctx, op, symbolic):
    me = ctx.me
    t = op[0]
    if t == 'send_headers':
        sid, kind, end = op[1], op[2], op[3]
        kw = {}
        if len(op) > 4:
            # ('send_headers', sid, kind, end, 'prio'): any non-empty subset of the three
            # priority arguments, each with a symbolic valid value
            if symbolic:
                hw, hd = core.sym_bool('has_weight'), core.sym_bool('has_depends_on')
                he = core.sym_bool('has_exclusive')
                if hw:
                    kw['priority_weight'] = _sv('w', 1, 256, 16)
                if hd:
                    kw['priority_depends_on'] = _sv('dep', 0, 9, 0)
                if he or not (hw or hd):
                    kw['priority_exclusive'] = core.sym_bool('exclusive')
            else:
                kw['priority_weight'] = 16
        me.send_headers(sid, KIND_HEADERS[kind], end_stream=end, **kw)
    elif t == 'send_data':
        _t, sid, end = op
        data = sym_bytes('dlen', 0, 1000, default=5) if symbolic else b'hello'
        me.send_data(sid, data, end_stream=end)
    elif t == 'end_stream':
        me.end_stream(op[1])
    elif t == 'reset':
        me.reset_stream(op[1], _sv('code', 0, core.INT32, 8) if symbolic else 8)
    elif t == 'push':
        me.push_stream(op[1], op[2], h2h.REQ)
    elif t == 'wu':
        inc = _sv('inc', 1, 1000, 10) if symbolic else 10
        me.increment_flow_control_window(inc, stream_id=op[1] or None)
    elif t == 'ack':
        me.acknowledge_received_data(_sv('ack', 0, 70000, 40000) if symbolic else 40000, op[1])
    elif t == 'altsvc':
        _t, sid, with_origin = op
        if with_origin:
            me.advertise_alternative_service(b'h2=":8000"', origin=b'example.org')
        else:
            me.advertise_alternative_service(b'h2=":8000"', stream_id=sid)
    elif t == 'prioritize':
        me.prioritize(op[1], weight=_sv('w', 1, 256, 16) if symbolic else 16)
    elif t == 'ping':
        me.ping(b'abcdefgh')
    elif t == 'settings':
        me.update_settings({})
    elif t == 'close':
        me.close_connection(_sv('gcode', 0, core.INT32, 0) if symbolic else 0)
    elif t == 'lfcw':
        me.local_flow_control_window(op[1])
    elif t == 'rfcw':
        me.remote_flow_control_window(op[1])
    elif t == 'open_counts':
        me.open_outbound_streams
        me.open_inbound_streams
    else:
        raise HarnessError("unknown api op %r" % (op,))


def run_op(ctx, op, symbolic=False, observe=True):
    """execute one op; the observer is fed with what was observably sent / accepted"""
    out = Outcome(op)
    cap = models.Out(ctx.me)
    is_frame = op[0].isupper()
    try:
        if is_frame:
            f = build_frame(ctx, op, symbolic)
            out.sent_frame = f
            out.events = h2h.deliver(ctx.me, [f])
        else:
            call_api(ctx, op, symbolic)
    except HarnessError:
        raise
    except Exception as e:
        out.exc = e
    try:
        out.frames = cap.frames()
        out.cleared = cap.cleared()
    except HarnessError:
        raise
    out.classify()
    if is_frame and out.exc is None:
        out.grammar = ctx.mon.feed(out.events)
    if observe:
        for f in out.frames:
            if isinstance(f, hf.HeadersFrame) and not is_frame and op[0] == 'send_headers':
                f._verif_kind = 'info' if op[2] == 'info' else 'final'
            ctx.obs.on_sent(f)
        if is_frame:
            if out.cls == ('accept',):
                ctx.obs.on_accepted(out.sent_frame,
                                    kind=op[2] if op[0] in ('HEADERS', 'HEADERSP') else None)
            elif out.cls[0] == 'conn_error':
                ctx.obs.on_conn_error()
            elif out.cls[0] == 'stream_error' and op[0] == 'PP':
                ctx.obs.on_push_refused(op[1])
    ctx.history.append(op)
    return out


def replay(client, history, cfg=None, upgrade=False):
    """rebuild an endpoint by replaying a witness history natively"""
    ctx = Ctx(client, cfg=cfg, upgrade=upgrade)
    for op in history:
        run_op(ctx, op, symbolic=False)
        ctx.me.data_to_send()
    return ctx
