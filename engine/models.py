"""Environment models (DESIGN.md section 3.3).  Each one is active only while the
CrossHair tracer runs (they are installed with crosshair's patch registry), so
native witness replays and counterexample replays use the real hyperframe/hpack."""
import copy
import struct

import z3
from crosshair.core import register_patch
from crosshair.tracers import NoTracing
from crosshair.libimpl.builtinslib import SymbolicInt
from hyperframe import frame as hf
from hyperframe.exceptions import InvalidFrameError

from . import core
from .core import CTX, sym_int, HarnessError

# ---------------------------------------------------------------- LenBytes


class LenBytes:
    """A byte string of (possibly symbolic) length and unconstrained content.
    h2 never inspects DATA payloads / encoded header blocks / ALTSVC fields /
    GOAWAY debug data; it takes len() and slices them."""
    def __ch_pytype__(self):
        return bytes

    def __init__(self, n):
        self.n = n

    def __len__(self):
        return self.n

    def __bool__(self):
        if self.n != 0:         # forks once when the length is symbolic
            return True
        return False

    def __getitem__(self, k):
        if not isinstance(k, slice):
            raise HarnessError("LenBytes content inspected")
        if k.step not in (None, 1):
            raise HarnessError("LenBytes step")
        n = self.n
        start = 0 if k.start is None else k.start
        stop = n if k.stop is None else k.stop
        if start < 0:
            start = start + n
            if start < 0:
                start = 0
        if stop < 0:
            stop = stop + n
            if stop < 0:
                stop = 0
        if start > n:
            start = n
        if stop > n:
            stop = n
        if stop < start:
            stop = start
        return LenBytes(stop - start)

    def __add__(self, other):
        return LenBytes(self.n + len(other))

    def __radd__(self, other):
        return LenBytes(len(other) + self.n)

    def __iadd__(self, other):
        return LenBytes(self.n + len(other))

    def __eq__(self, other):
        raise HarnessError("LenBytes content compared")

    __hash__ = None

    def tobytes(self):
        return self

    def __repr__(self):
        return "LenBytes(%r)" % (self.n,)

    def __ch_realize__(self):
        return b'\x00' * core.realize(self.n)

    def __ch_deep_realize__(self, memo):
        return b'\x00' * core.realize(self.n)


def sym_bytes(name, lo=0, hi=None, default=None):
    """bytes of symbolic length in [lo, hi]; native: zero bytes of the model's length."""
    n = sym_int(name, lo, hi, default=default)
    if CTX.mode == 'native':
        return b'\x00' * n
    return LenBytes(n)


# ---------------------------------------------------------------- HfSerialize
CAPTURE = []          # frames serialised on this path (symbolic mode)
NATIVE_DEPTH = [0]    # >0 while inside `with h2h.native()`: real bytes are produced


def _pad_part(f):
    """length contributed by padding (length byte + padding), struct range check."""
    n = 0
    if 'PADDED' in f.flags:
        if f.pad_length < 0 or f.pad_length > 255:
            raise struct.error("ubyte format requires 0 <= number <= 255")
        n = 1
    # b"\0" * pad_length : negative -> empty
    if f.pad_length > 0:
        n = n + f.pad_length
    return n


def _u32(v):
    if v < 0 or v > 0xFFFFFFFF:
        raise struct.error("argument out of range")


def _prio_part(f):
    v = f.depends_on + (0x80000000 if f.exclusive else 0)
    _u32(v)
    if f.stream_weight < 0 or f.stream_weight > 255:
        raise struct.error("ubyte format requires 0 <= number <= 255")
    return 5


def model_body_len(f):
    """body length (and the exceptions) of hyperframe's serialize_body, per class."""
    t = type(f)
    if t is hf.DataFrame:
        return _pad_part(f) + len(f.data)
    if t is hf.HeadersFrame:
        n = _pad_part(f)
        if 'PRIORITY' in f.flags:
            n = n + _prio_part(f)
        return n + len(f.data)
    if t is hf.PushPromiseFrame:
        n = _pad_part(f)
        _u32(f.promised_stream_id)
        return n + 4 + len(f.data)
    if t is hf.ContinuationFrame:
        return len(f.data)
    if t is hf.PriorityFrame:
        return _prio_part(f)
    if t is hf.RstStreamFrame:
        _u32(f.error_code)
        return 4
    if t is hf.SettingsFrame:
        n = 0
        for _k, v in f.settings.items():
            _u32(v)
            n += 6
        return n
    if t is hf.PingFrame:
        if len(f.opaque_data) > 8:
            raise InvalidFrameError("PING frame may not have more than 8 bytes of data")
        return 8
    if t is hf.GoAwayFrame:
        _u32(f.error_code)
        return 8 + len(f.additional_data)
    if t is hf.WindowUpdateFrame:
        return 4
    if t is hf.AltSvcFrame:
        if len(f.origin) > 0xFFFF:
            raise struct.error("ushort format requires 0 <= number <= 65535")
        return 2 + len(f.origin) + len(f.field)
    if t is hf.ExtensionFrame:
        return len(f.body)
    raise HarnessError("no serialize model for %s" % t.__name__)


def _snapshot_frame(f):
    """serialize() fixes the bytes at the moment it is called: what is captured is the
    frame as it is NOW (the library may keep and mutate the object afterwards)"""
    g = object.__new__(type(f))
    for k, v in f.__dict__.items():
        if isinstance(v, (set, dict)) or type(v).__name__ == 'Flags':
            g.__dict__[k] = copy.copy(v)
        else:
            g.__dict__[k] = v
    return g


CAPTURE_KEYS = []     # (content key or None, index) per captured frame
_PLAIN = (int, bytes, str, bool, type(None))


def _content_key(f):
    """hashable description of a frame all of whose fields are concrete, else None (a frame
    with a symbolic field gets a tag of its own: equality of its bytes with another frame's
    is not decided by this model -- stated in DESIGN.md 3.3)"""
    items = []
    for k, v in sorted(f.__dict__.items()):
        if k == 'body_len':
            continue
        t = type(v)
        if t in _PLAIN:
            items.append((k, v))
        elif t is set or t.__name__ == 'Flags':
            fl = sorted(v)
            if any(type(x) is not str for x in fl):
                return None
            items.append((k, tuple(fl)))
        elif t is dict:
            if any(type(a) not in _PLAIN and not isinstance(a, int) or type(b) not in _PLAIN
                   for a, b in v.items()):
                return None
            items.append((k, tuple(sorted((int(a), b) for a, b in v.items()))))
        else:
            return None
    return (type(f).__name__, tuple(items))


def _serialize_model(self):
    n = model_body_len(self)
    self.body_len = n
    with NoTracing():
        key = _content_key(self)
        if key is not None:
            for i, (k0, _f) in enumerate(CAPTURE_KEYS):
                if k0 == key:
                    return bytes([i])       # identical frames serialise to identical bytes
        k = len(CAPTURE)
        if k >= 250:
            raise HarnessError("more than 250 frames serialised on one path")
        CAPTURE.append(_snapshot_frame(self))
        CAPTURE_KEYS.append((key, k))
    # one opaque tag byte per frame (its index in the capture list): the output buffer
    # grows exactly when a frame is emitted and keeps the frames' BUFFER order
    return bytes([k])


register_patch(hf.Frame.serialize, _serialize_model)


class Out:
    """Frames emitted by a connection since this object was created, in the order they
    sit in the output buffer.  Symbolic mode: tag bytes -> captured frame objects.
    Native mode: the real bytes re-parsed by hyperframe (an independent decoder of what
    was really serialised)."""

    def __init__(self, conn):
        self.conn = conn
        self.mark = len(conn._data_to_send)

    def cleared(self):
        return len(self.conn._data_to_send) < self.mark

    def frames(self):
        buf = self.conn._data_to_send
        mark = self.mark if len(buf) >= self.mark else 0
        if CTX.mode == 'sym' and not NATIVE_DEPTH[0]:
            with NoTracing():
                tags = bytes(buf[mark:])
                pre = b'PRI * HTTP/2.0\r\n\r\nSM\r\n\r\n'
                if tags.startswith(pre):
                    tags = tags[len(pre):]
                if any(b >= len(CAPTURE) for b in tags):
                    bad = True
                else:
                    bad = False
                    out = [CAPTURE[b] for b in tags]
            if bad:
                # bytes that were in the buffer before this call were moved or removed
                core.fail_now('output-buffer-not-appended-to', None)
            return out
        return parse_frames(bytes(buf[mark:]))

    def nbytes(self):
        return len(self.conn._data_to_send) - self.mark


def parse_frames(data, skip_preface=True):
    pre = b'PRI * HTTP/2.0\r\n\r\nSM\r\n\r\n'
    if skip_preface and data.startswith(pre):
        data = data[len(pre):]
    out = []
    while data:
        f, length = hf.Frame.parse_frame_header(memoryview(data[:9]))
        if len(data) < 9 + length:
            raise HarnessError("truncated frame in output")
        f.parse_body(memoryview(data[9:9 + length]))
        out.append(f)
        data = data[9 + length:]
    return out


def reset_path_state():
    del CAPTURE[:]
    del CAPTURE_KEYS[:]
    NATIVE_DEPTH[0] = 0


core.PATH_RESET_HOOKS.append(reset_path_state)
