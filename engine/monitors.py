"""Event-grammar monitor for C07: consumes the event lists returned by receive_data and
checks the per-stream HTTP message grammar for the endpoint's role.  Independent of h2's
internal state: it only sees event objects."""
import copy


class EventMonitor:
    def __init__(self, client):
        self.client = client
        self.phase = {}          # sid -> 'start' | 'info' | 'headers' | 'data' | 'trailers'
        self.ended = set()
        self.reset = set()
        self.pushed = set()      # promised stream ids (client): may only carry a response

    def clone(self):
        return copy.deepcopy(self)

    def key(self):
        return (tuple(sorted(self.phase.items())), tuple(sorted(self.ended)),
                tuple(sorted(self.reset)))

    def feed(self, events):
        """returns a list of violated grammar clauses (empty = accepted)"""
        bad = []
        ids = [id(e) for e in events]
        for i, e in enumerate(events):
            name = type(e).__name__
            sid = getattr(e, 'stream_id', None)
            later = set(ids[i + 1:])
            # related-event fields must point to an event later in the same list
            for attr in ('stream_ended', 'priority_updated'):
                rel = getattr(e, attr, None)
                if rel is not None and id(rel) not in later:
                    bad.append('related-event-not-later:%s.%s' % (name, attr))
            if name == 'TrailersReceived' and getattr(e, 'stream_ended', None) is None:
                bad.append('trailers-without-stream-ended')
            if name == 'PushedStreamReceived':
                if not self.client:
                    bad.append('server-reports-push')
                psid = e.parent_stream_id
                if psid in self.reset or psid in self.ended:
                    bad.append('push-after-end-or-reset')
                self.pushed.add(e.pushed_stream_id)
                continue
            if sid is None or sid == 0:
                continue
            if name == 'PriorityUpdated':
                continue
            if sid in self.reset:
                bad.append('event-after-reset:' + name)
                continue
            ph = self.phase.get(sid, 'start')
            if name == 'StreamReset':
                self.reset.add(sid)
                continue
            if name in ('WindowUpdated', 'AlternativeServiceAvailable'):
                continue
            if sid in self.ended:
                bad.append('event-after-stream-ended:' + name)
                continue
            if name == 'RequestReceived':
                if self.client:
                    bad.append('client-reports-request')
                if ph != 'start':
                    bad.append('second-request')
                self.phase[sid] = 'headers'
            elif name == 'InformationalResponseReceived':
                if not self.client:
                    bad.append('server-reports-response')
                if ph not in ('start', 'info'):
                    bad.append('informational-after-final')
                self.phase[sid] = 'info'
            elif name == 'ResponseReceived':
                if not self.client:
                    bad.append('server-reports-response')
                if ph not in ('start', 'info'):
                    bad.append('second-final-response')
                self.phase[sid] = 'headers'
            elif name == 'DataReceived':
                if ph not in ('headers', 'data'):
                    bad.append('data-before-headers-or-after-trailers')
                self.phase[sid] = 'data'
            elif name == 'TrailersReceived':
                if ph not in ('headers', 'data'):
                    bad.append('trailers-out-of-place')
                self.phase[sid] = 'trailers'
            elif name == 'StreamEnded':
                if ph in ('start', 'info'):
                    bad.append('ended-before-headers')
                self.ended.add(sid)
            else:
                bad.append('unexpected-event:' + name)
        return bad
