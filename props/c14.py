"""C14 -- outbound header blocks are normalised and RFC 7540 section 8.1.2 conformant."""
from hpack import HeaderTuple, NeverIndexedHeaderTuple
from hyperframe import frame as hf
from crosshair.tracers import NoTracing

import h2.events
import h2.exceptions

from engine.core import (check, note, sym_choice, s_and, s_or, s_not, s_eq, CTX)
from engine import h2h, ops, models, cellbytes as CB, hdr_oracle as O
from engine.cellbytes import CellBytes, sym_cells
from engine.runner import Shard

MODELS = ['fmt_stub', 'HfSerialize', 'HpackEnc', 'CellBytes', 'FrozensetDeopt', 'CharClassRe']
BOUNDS = {
    'block types': 'request, response, informational response, trailers (client and server), '
                   'push promise',
    'configurations': 'normalize_outbound_headers x validate_outbound_headers',
    'input representation': 'plain tuples of bytes, plain tuples of str, HeaderTuple, '
                            'NeverIndexedHeaderTuple',
    'whitespace': 'in symbolic strings longer than 4 cells only the two outermost cells on each '
                  'side (one for strings longer than 12) may be whitespace (strip() forks on the number of stripped cells)',
    'symbolic content': 'ONE field with a fully symbolic name (length 0..7, 9, 10, 13, 16, 17, '
                        '19) and value (length 0..3; 19 and 20 for the cookie threshold) at a '
                        'solver-chosen position; or symbolic values of :path, te, '
                        ':authority + host; every cell 0..255 (bytes) / 0..127 (str)',
}
OUTSIDE = ['more than one symbolic field per block; names longer than 19 bytes; non-ASCII str '
           'input']
ASSUMPTIONS = ['the HPACK encoder is a recording model: the block the peer will decode is the list '
               'the encoder was shown (hpack contract)']
VALIDATORS = [CB.validate_cellbytes, CB.validate_upper_re]

SECURE = [b'authorization', b'proxy-authorization']
BASE = {
    'request': [(b':method', b'GET'), (b':scheme', b'https'), (b':authority', b'example.com'),
                (b':path', b'/'), (b'user-agent', b'x')],
    'request-host': [(b':method', b'GET'), (b':scheme', b'https'), (b':path', b'/'),
                     (b'host', b'example.com')],
    'response': [(b':status', b'200'), (b'server', b'x')],
    'informational': [(b':status', b'103'), (b'link', b'x')],
    'trailers-client': [(b'x-trailer', b'v')],
    'trailers-server': [(b'x-trailer', b'v')],
    'push': [(b':method', b'GET'), (b':scheme', b'https'), (b':authority', b'example.com'),
             (b':path', b'/pushed')],
    # RFC 8441 extended CONNECT
    'connect': [(b':method', b'CONNECT'), (b':protocol', b'websocket'), (b':scheme', b'https'),
                (b':path', b'/chat'), (b':authority', b'example.com'), (b'origin', b'x')],
}
KIND_OF = {'connect': 'request', 'request': 'request', 'request-host': 'request', 'response': 'response',
           'informational': 'informational', 'trailers-client': 'trailers',
           'trailers-server': 'trailers', 'push': 'push'}


class EncoderRecorder:
    def __init__(self):
        self.header_table_size = 4096
        self.blocks = []

    def encode(self, headers):
        self.blocks.append(list(headers))     # consumes the (lazy) pipeline like hpack does
        return b'\x82'


def _ctx(block, cfg):
    if block in ('request', 'request-host', 'connect'):
        ctx = ops.Ctx(True, cfg=cfg)
    elif block == 'trailers-client':
        ctx = ops.Ctx(True, cfg=cfg)
        ops.run_op(ctx, ('send_headers', 1, 'req', False))
    else:
        ctx = ops.Ctx(False, cfg=cfg)
        ops.run_op(ctx, ('HEADERS', 1, 'req', False))
        if block == 'trailers-server':
            ops.run_op(ctx, ('send_headers', 1, 'resp', False))
    ctx.me.data_to_send()
    return ctx


def _conv(x, rep):
    """input representation of a concrete base field"""
    if rep == 'str':
        return x.decode('ascii')
    return x


def build_input(block, variant, nlen, vlen, rep):
    text = rep == 'str'
    hi = 127 if text else 255
    base = [(_conv(n, rep), _conv(v, rep)) for n, v in BASE[block]]

    def cells(name, n):
        c = sym_cells(name, n, 0, hi)
        if n > 4 and CTX.mode == 'sym':
            # bound: whitespace may only occur in the two outer cells on each side (strip()
            # forks on the number of stripped cells)
            from engine.core import assume_z
            keep = 1 if n > 12 else 2
            for cell in c.cells[keep:-keep]:
                assume_z(s_not(O.cell_in(cell, CB.WS)))
        if text:
            if CTX.mode == 'sym':
                with NoTracing():
                    return CellBytes(c.cells, text=True)
            return c.decode('ascii')
        return c
    if variant == 'extra':
        pos = sym_choice('position', ['first', 'after-pseudo', 'last'])
        npseudo = sum(1 for n, _v in BASE[block] if n.startswith(b':'))
        i = {'first': 0, 'after-pseudo': npseudo, 'last': len(base)}[pos]
        base.insert(i, (cells('name', nlen), cells('value', vlen)))
    elif variant == 'order':
        # the pseudo-header fields in any order (solver-chosen permutation)
        import itertools
        k = sum(1 for n, _v in BASE[block] if n.startswith(b':'))
        perm = sym_choice('order', list(itertools.permutations(range(k))))
        base = [base[i] for i in perm] + base[k:]
    elif variant == 'path':
        base = [(n, cells('path', vlen) if n in (b':path', u':path') else v) for n, v in base]
    elif variant == 'te':
        base.append((_conv(b'te', rep), cells('te', vlen or 8)))
    elif variant == 'cookie':
        base.append((_conv(b'Cookie', rep), cells('cookie', vlen)))
    elif variant == 'host-authority':
        base = [(n, cells('authority', 2) if n in (b':authority', u':authority') else v)
                for n, v in base]
        base.append((_conv(b'host', rep), cells('host', 2)))
    if rep == 'HeaderTuple':
        return [HeaderTuple(n, v) for n, v in base]
    if rep == 'NeverIndexed':
        return [NeverIndexedHeaderTuple(n, v) for n, v in base]
    return base


def transform(inp, normalize):
    """what normalisation promises: lower-cased trimmed names, trimmed values, connection-
    specific fields dropped, sensitive fields marked never-indexed"""
    if not normalize:
        return [(n, v, isinstance(h, NeverIndexedHeaderTuple), None)
                for h in inp for n, v in [h]]
    out = []
    for h in inp:
        n, v = h
        n2 = n.lower().strip()
        v2 = v.strip()
        if O.any_(O.eqc(n2, c) for c in O.CONNECTION_SPECIFIC):     # forks: list shape
            continue
        secure = s_or(O.any_(O.eqc(n2, c) for c in SECURE),
                      s_and(O.eqc(n2, b'cookie'), len(v2) < 20),
                      isinstance(h, NeverIndexedHeaderTuple))
        out.append((n2, v2, secure, h))
    return out


def make(block, cfg, variant, nlen, vlen, rep):
    normalize = cfg['normalize_outbound_headers']
    validate = cfg['validate_outbound_headers']

    def h():
        with h2h.native():
            ctx = _ctx(block, cfg)
        me = ctx.me
        rec = EncoderRecorder()
        me.encoder = rec
        inp = build_input(block, variant, nlen, vlen, rep)
        exp = transform(inp, normalize)
        conf = O.conformant([(n, v) for n, v, _s, _h in exp], KIND_OF[block],
                            ) if validate else True
        if validate:
            # outbound validation does not look at letter case / whitespace: with
            # normalisation on they were repaired, with it off they are the caller's business
            conf = outbound_conformant([(n, v) for n, v, _s, _h in exp], KIND_OF[block])
        out = models.Out(me)
        exc = None
        try:
            if block == 'push':
                me.push_stream(1, 2, inp)
            elif block.startswith('trailers'):
                me.send_headers(1, inp, end_stream=True)
            else:
                me.send_headers(1, inp)
        except h2.exceptions.ProtocolError as e:
            exc = e
        if exc is not None:
            note('refused')
            if validate:
                check(s_not(conf), 'repairable-or-valid-block-refused', None)
            check(out.nbytes() == 0, 'refused-call-emits', None)
            return
        note('emitted')
        check(conf, 'nonconformant-block-emitted', None)
        check(len(rec.blocks) == 1, 'encoder-calls', len(rec.blocks))
        got = rec.blocks[0]
        check(len(got) == len(exp), 'emitted-length', (len(got), len(exp)))
        if len(got) != len(exp):
            return
        terms = []
        for g, (n, v, secure, orig) in zip(got, exp):
            terms.append(O.eqx(g[0], n))
            terms.append(O.eqx(g[1], v))
            ni = isinstance(g, NeverIndexedHeaderTuple)
            if normalize:
                terms.append(s_eq_bool(ni, secure))
        check(s_and(*terms) if terms else True, 'emitted-block-differs-from-normalised-input',
              None)
        if normalize:
            # the promised shape, checked directly on what was emitted
            for g in got:
                nc, vc = O.cells(g[0]), O.cells(g[1])
                shape = [s_not(O.cell_between(c, 65, 90)) for c in nc]
                if nc:
                    shape += [s_not(O.cell_in(nc[0], CB.WS)), s_not(O.cell_in(nc[-1], CB.WS))]
                if vc:
                    shape += [s_not(O.cell_in(vc[0], CB.WS)), s_not(O.cell_in(vc[-1], CB.WS))]
                shape.append(s_not(O.any_(O.eqc(g[0], c) for c in O.CONNECTION_SPECIFIC)))
                check(O.all_(shape), 'emitted-field-not-normalised', None)
    return h


def s_eq_bool(a, b):
    from engine.core import s_iff
    return s_iff(a, b)


def outbound_conformant(headers, kind):
    """the rules outbound validation promises (te, connection-specific, pseudo-headers,
    host/authority, :path) -- names' case and whitespace are normalisation's job"""
    hs = list(headers)
    oks = []
    pseudo = [O.starts_colon(n) for n, _v in hs]
    is_p = dict((p, [O.eqc(n, p) for n, _v in hs]) for p in O.PSEUDO)
    for i, (n, v) in enumerate(hs):
        oks.append(s_not(O.any_(O.eqc(n, c) for c in O.CONNECTION_SPECIFIC)))
        oks.append(O.s_implies(O.eqc(n, b'te'), O.lower_eq(v, b'trailers')))
        oks.append(O.s_implies(pseudo[i], O.any_(is_p[p][i] for p in O.PSEUDO)))
        for j in range(i):
            oks.append(s_not(s_and(pseudo[i], s_not(pseudo[j]))))
    for p in O.PSEUDO:
        oks.append(O.count_le_one(is_p[p]))
    present = dict((p, O.any_(is_p[p])) for p in O.PSEUDO)
    if kind == 'trailers':
        oks.append(s_not(O.any_(pseudo)))
    elif kind in ('response', 'informational'):
        oks.append(present[b':status'])
        oks.append(s_not(O.any_(present[p] for p in O.REQUEST_PSEUDO)))
    else:
        oks += [present[b':method'], present[b':scheme'], present[b':path'],
                s_not(present[b':status'])]
        connect = O.any_(s_and(is_p[b':method'][i], O.eqc(v, b'CONNECT'))
                         for i, (_n, v) in enumerate(hs))
        oks.append(O.s_implies(present[b':protocol'], connect))
        for i, (_n, v) in enumerate(hs):
            oks.append(O.s_implies(is_p[b':path'][i], len(O.cells(v)) > 0))
        is_host = [O.eqc(n, b'host') for n, _v in hs]
        oks.append(s_or(present[b':authority'], O.any_(is_host)))
        for i, (_n, vi) in enumerate(hs):
            for j, (_m, vj) in enumerate(hs):
                oks.append(O.s_implies(s_and(is_p[b':authority'][i], is_host[j]),
                                       O.eqx(vi, vj)))
    return O.all_(oks)


CFGS = [{'normalize_outbound_headers': n, 'validate_outbound_headers': v}
        for n in (True, False) for v in (True, False)]


def h_retry_after_refused():
    """a server has sent its final response; a header block in trailer position is refused
    (solver-chosen reason); the application tries again: whatever is then emitted in trailer
    position satisfies the trailer rules (no pseudo-header fields, END_STREAM), exactly as if
    the refused call had never been made"""
    def h():
        with h2h.native():
            ctx = ops.Ctx(False)
            ops.run_op(ctx, ('HEADERS', 1, 'req', False))
            ops.run_op(ctx, ('send_headers', 1, 'resp', False))
            ctx.me.data_to_send()
        me = ctx.me
        rec = EncoderRecorder()
        me.encoder = rec
        BLOCKS = {'pseudo': [(b':status', b'200'), (b'x', b'y')],
                  'te': [(b'x-trailer', b'v'), (b'te', b'gzip')],
                  'connection': [(b'connection', b'close')],
                  'upper': [(b'X-Trailer', b'v')],
                  'valid': [(b'x-trailer', b'v')]}
        first = sym_choice('refused_block', ['pseudo', 'te', 'connection', 'valid-noend'])
        try:
            if first == 'valid-noend':
                me.send_headers(1, BLOCKS['valid'], end_stream=False)
            else:
                me.send_headers(1, BLOCKS[first], end_stream=True)
        except h2.exceptions.ProtocolError:
            note('refused')
        else:
            note('first-accepted')
            return
        check(len(rec.blocks) == 0, 'refused-call-fed-the-encoder', first)
        second = sym_choice('retry_block', ['pseudo', 'te', 'valid', 'upper'])
        out = models.Out(me)
        try:
            me.send_headers(1, BLOCKS[second], end_stream=True)
        except h2.exceptions.ProtocolError:
            note('retry-refused')
            check(second not in ('valid', 'upper'), 'valid-trailers-refused-after-refused-call',
                  (first, second))
            check(out.nbytes() == 0, 'refused-call-emits', None)
            return
        note('retry-emitted')
        check(second in ('valid', 'upper'), 'nonconformant-block-emitted:after-refused-call',
              (first, second))
        shown = rec.blocks[-1]
        check(O.conformant(shown, 'trailers'), 'nonconformant-block-emitted', None)
    return h


def shards(tier, seed):
    out = [Shard('retry_after_refused/server', h_retry_after_refused(), twin=False,
                 expect=['refused', 'retry-refused', 'retry-emitted'])]

    def add(block, cfg, rep, variant, nlen, vlen):
        cn = 'norm=%d,val=%d' % (cfg['normalize_outbound_headers'],
                                cfg['validate_outbound_headers'])
        if variant == 'extra':
            name = '%s/%s/%s/extra/name=%d/value=%d' % (block, cn, rep, nlen, vlen)
        elif variant in ('path', 'cookie') or (variant == 'te' and vlen):
            name = '%s/%s/%s/%s/value=%d' % (block, cn, rep, variant, vlen)
        else:
            name = '%s/%s/%s/%s' % (block, cn, rep, variant)
        out.append(Shard(name, make(block, cfg, variant, nlen, vlen, rep), budget=150,
                         twin=False))

    default = CFGS[0]
    if tier == 'quick':
        for block, reps in (('request', ['bytes', 'str']), ('response', ['bytes', 'HeaderTuple']),
                            ('push', ['bytes']), ('trailers-server', ['bytes']),
                            ('informational', ['bytes'])):
            for rep in reps:
                for nlen in (2, 7, 10):
                    add(block, default, rep, 'extra', nlen, 1)
                add(block, default, rep, 'te', 0, 0)
        add('request', default, 'bytes', 'path', 0, 0)
        add('request', default, 'bytes', 'path', 0, 1)
        add('request', default, 'bytes', 'host-authority', 0, 0)
        add('request-host', default, 'bytes', 'extra', 4, 1)
        add('request', default, 'bytes', 'extra', 13, 0)
        add('response', default, 'bytes', 'extra', 17, 0)
        for vlen in (19, 20):
            add('request', default, 'bytes', 'cookie', 0, vlen)
        for cfg in CFGS[1:]:
            add('request', cfg, 'bytes', 'extra', 7, 1)
            add('response', cfg, 'bytes', 'extra', 10, 1)
        for block in ('request', 'push', 'connect'):
            add(block, default, 'bytes', 'order', 0, 0)
        add('connect', default, 'bytes', 'extra', 9, 1)
        # te values one and two cells longer than "trailers"
        add('request', default, 'bytes', 'te', 0, 9)
        add('trailers-server', default, 'bytes', 'te', 0, 10)
        return out
    nlens = [0, 1, 2, 3, 4, 5, 6, 7, 9, 10, 13, 16, 17, 19]
    for block in ('request', 'push', 'connect'):
        for rep in ('bytes', 'str'):
            add(block, default, rep, 'order', 0, 0)
    for block in BASE:
        for vlen in (7, 9, 10):
            add(block, default, 'bytes', 'te', 0, vlen)
    for block in BASE:
        for cfg in CFGS:
            reps = ['bytes', 'str', 'HeaderTuple', 'NeverIndexed'] if cfg is default \
                else ['bytes']
            for rep in reps:
                for nlen in nlens:
                    if cfg is not default and nlen not in (2, 7, 10, 17):
                        continue
                    if rep in ('HeaderTuple', 'NeverIndexed') and nlen not in (2, 6, 7, 10, 13):
                        continue
                    for vlen in ((0, 2) if rep == 'bytes' and cfg is default else (1,)):
                        add(block, cfg, rep, 'extra', nlen, vlen)
                if rep in ('bytes', 'str'):
                    if KIND_OF[block] in ('request', 'push'):
                        for vlen in (0, 1, 2):
                            add(block, cfg, rep, 'path', 0, vlen)
                        add(block, cfg, rep, 'host-authority', 0, 0)
                    add(block, cfg, rep, 'te', 0, 0)
                    if cfg is default:
                        for vlen in (18, 19, 20, 21):
                            add(block, cfg, rep, 'cookie', 0, vlen)
    return out
