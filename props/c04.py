"""C04 -- inbound flow control is enforced exactly at the advertised windows."""
from hyperframe import frame as hf

import h2.events
import h2.exceptions
from h2.errors import ErrorCodes
from h2.settings import SettingCodes

from engine.core import (sym_int, sym_bool, sym_choice, check, note, s_and, s_or, s_not, s_le, s_lt,
                         s_ite, s_min, s_between, INT31)
from engine import h2h, models
from engine.models import sym_bytes
from engine.runner import Shard

MODELS = ['fmt_stub', 'HfSerialize', 'FrameFeed', 'LenBytes']
BIGFRAME = 2 ** 24 - 1
BOUNDS = {
    'advertised connection window': '0..2^31-1 (symbolic)',
    'advertised stream windows': '-2^31..2^31-1 (symbolic; negative after a shrink)',
    'max_window_size / _bytes_processed': '0..2^31-1 each (symbolic, constrained only by the '
                                          'representation invariant)',
    'DATA payload / padding': '0..2^24-300 / none or 0..255 (symbolic)',
    'increment argument': '-2^31..2^32 (symbolic)',
    'acknowledged size': '-2^31..2^31 (symbolic)',
    'INITIAL_WINDOW_SIZE old/new': '0..2^31-1 (symbolic), ACK as a separate step',
    'streams': '2 open + 1 created around the ACK',
}
OUTSIDE = ['more than 3 streams (2 open + 1 created around the ACK, or 1 reserved)']
ASSUMPTIONS = [
    'inductive pre-state: library window == advertised window (ghost), every integer '
    'content of the two window managers arbitrary',
    'representation invariant of every WindowManager (connection, stream 1, stream 3): '
    'cur <= max <= 2^31-1 and max - cur <= 2^31-1.  It is assumed of the pre-state and '
    're-proved of the post-state by every step harness (clause invariant-not-preserved), '
    'which is what lets one step stand for histories of any length',
    'hyperframe delivers DATA with 0 <= pad_length <= 255 and pad_length < body length',
]


def _witness(client):
    """two streams on which `me` receives DATA"""
    c, s = h2h.pair()
    c.send_headers(1, h2h.REQ_POST)
    c.send_headers(3, h2h.REQ_POST)
    h2h.pump(c, s)
    if client:
        s.send_headers(1, h2h.RESP)
        s.send_headers(3, h2h.RESP)
        h2h.pump(c, s)
    me = c if client else s
    me.max_inbound_frame_size = BIGFRAME
    return me


def _pre(me):
    A = h2h.Adapter
    cc = sym_int('conn_cur', 0, INT31, default=65535)
    cm = sym_int('conn_max', 0, INT31, default=65535)
    cp = sym_int('conn_proc', 0, INT31, default=0)
    s1 = sym_int('s1_cur', -INT31 - 1, INT31, default=65535)
    m1 = sym_int('s1_max', -INT31 - 1, INT31, default=65535)
    p1 = sym_int('s1_proc', 0, INT31, default=0)
    s3 = sym_int('s3_cur', -INT31 - 1, INT31, default=65535)
    m3 = sym_int('s3_max', -INT31 - 1, INT31, default=65535)
    from engine.core import assume_z
    # representation invariant 0 <= max - cur <= 2^31-1 (see ASSUMPTIONS)
    assume_z(s_and(s_le(cc, cm), s_le(cm - cc, INT31), s_le(s1, m1), s_le(m1 - s1, INT31),
                   s_le(s3, m3), s_le(m3 - s3, INT31)))
    A.set_wm(A.conn_wm(me), cc, cm, cp)
    A.set_wm(A.stream_wm(me, 1), s1, m1, p1)
    A.set_wm(A.stream_wm(me, 3), s3, m3, 0)
    return cc, s1, s3


def _inv(me, tag):
    """the representation invariant assumed by _pre is re-established by the step (this is
    what makes the one-step argument cover histories of any length)"""
    A = h2h.Adapter
    for name, wm in (('conn', A.conn_wm(me)), ('s1', A.stream_wm(me, 1)),
                     ('s3', A.stream_wm(me, 3))):
        if wm is None:
            continue
        c, m = wm.current_window_size, wm.max_window_size
        check(s_and(s_le(c, m), s_le(m - c, INT31), s_le(m, INT31)),
              'invariant-not-preserved:' + name,
              (tag, c, m))


def _cur(me):
    A = h2h.Adapter
    return (A.conn_wm(me).current_window_size, A.stream_wm(me, 1).current_window_size,
            A.stream_wm(me, 3).current_window_size)


def _same(me, pre, tag):
    cur = _cur(me)
    check(s_and(cur[0] == pre[0], cur[1] == pre[1], cur[2] == pre[2]), tag, cur)


def _credit(frames, ghost):
    """apply the emitted WINDOW_UPDATE frames to the ghost (conn, s1, s3); every emitted
    frame must be a WINDOW_UPDATE with a legal increment"""
    gc, g1, g3 = ghost
    ok = True
    for f in frames:
        if not isinstance(f, hf.WindowUpdateFrame):
            ok = False
            continue
        check(s_between(1, f.window_increment, INT31), 'wu-increment-range',
              f.window_increment)
        if f.stream_id == 0:
            gc = gc + f.window_increment
        elif f.stream_id == 1:
            g1 = g1 + f.window_increment
        elif f.stream_id == 3:
            g3 = g3 + f.window_increment
        else:
            ok = False
    return ok, (gc, g1, g3)


def h_recv_data(client, padded):
    def h():
        with h2h.native():
            me = _witness(client)
        gc, g1, g3 = pre = _pre(me)
        check(me.remote_flow_control_window(1) == s_min(gc, g1), 'remote-window-is-min', None)
        data = sym_bytes('n', 0, BIGFRAME - 300, default=10)
        n = len(data)
        end = sym_bool('end')
        f = hf.DataFrame(1)
        f.data = data
        fcl = n
        if padded:
            pad = sym_int('pad', 0, 255, default=3)
            f.flags.add('PADDED')
            f.pad_length = pad
            fcl = n + pad + 1
        if end:
            f.flags.add('END_STREAM')
        out = models.Out(me)
        fits = s_and(s_le(fcl, gc), s_le(fcl, g1))
        try:
            evs = h2h.deliver(me, [f])
        except h2.exceptions.ProtocolError as e:
            note('rejected')
            check(s_not(fits), 'fitting-data-rejected', (n, fcl, gc, g1))
            check(isinstance(e, h2.exceptions.FlowControlError) and
                  e.error_code == ErrorCodes.FLOW_CONTROL_ERROR, 'overrun-code',
                  type(e).__name__)
            fr = out.frames()
            check(len(fr) == 1 and isinstance(fr[0], hf.GoAwayFrame) and
                  fr[0].error_code == ErrorCodes.FLOW_CONTROL_ERROR, 'overrun-goaway', None)
        else:
            note('accepted')
            check(fits, 'overrun-accepted', (n, fcl, gc, g1))
            check(len(evs) >= 1 and isinstance(evs[0], h2.events.DataReceived) and
                  evs[0].flow_controlled_length == fcl, 'data-event-fcl', None)
            ok, (gc2, g12, g32) = _credit(out.frames(), (gc - fcl, g1 - fcl, g3))
            check(ok, 'unexpected-frames-on-data', None)
            cur = _cur(me)
            check(s_and(cur[0] == gc2, cur[1] == g12, cur[2] == g32), 'window-after-data',
                  cur)
            if not end:
                check(me.remote_flow_control_window(1) == s_min(gc2, g12),
                      'remote-window-after-data', None)
            _inv(me, 'data')
    return h


def h_increment(client, on_stream):
    def h():
        with h2h.native():
            me = _witness(client)
        gc, g1, g3 = pre = _pre(me)
        inc = sym_int('inc', -INT31 - 1, 2 ** 32, default=100)
        out = models.Out(me)
        target = g1 if on_stream else gc
        valid = s_between(1, inc, INT31)
        over = s_lt(INT31, target + inc)
        try:
            me.increment_flow_control_window(inc, stream_id=1 if on_stream else None)
        except ValueError:
            note('range')
            check(s_not(valid), 'valueerror-on-valid-increment', inc)
            check(out.nbytes() == 0, 'raise-emits', None)
            _same(me, pre, 'raise-changes-window')
            _inv(me, 'increment-raised')
        except h2.exceptions.FlowControlError:
            note('overflow')
            check(s_and(valid, over), 'flowcontrolerror-without-overflow', (inc, target))
            check(out.nbytes() == 0, 'raise-emits', None)
            _same(me, pre, 'raise-changes-window')
            _inv(me, 'increment-raised')
        else:
            note('credited')
            check(s_and(valid, s_not(over)), 'overflowing-increment-accepted', (inc, target))
            fr = out.frames()
            check(len(fr) == 1 and isinstance(fr[0], hf.WindowUpdateFrame) and
                  fr[0].stream_id == (1 if on_stream else 0) and
                  fr[0].window_increment == inc, 'increment-frame', None)
            ok, g = _credit(fr, pre)
            cur = _cur(me)
            check(s_and(cur[0] == g[0], cur[1] == g[1], cur[2] == g[2]),
                  'window-after-increment', cur)
            check(me.remote_flow_control_window(1) == s_min(g[0], g[1]),
                  'remote-window-after-increment', None)
            _inv(me, 'increment')
    return h


def h_acknowledge(client):
    def h():
        with h2h.native():
            me = _witness(client)
        pre = _pre(me)
        k = sym_int('ack', -INT31 - 1, INT31 + 1, default=40000)
        out = models.Out(me)
        try:
            me.acknowledge_received_data(k, 1)
        except ValueError:
            note('range')
            check(s_lt(k, 0), 'valueerror-on-valid-ack', k)
            check(out.nbytes() == 0, 'raise-emits', None)
            _same(me, pre, 'raise-changes-window')
        else:
            note('acked')
            check(s_le(0, k), 'negative-ack-accepted', k)
            fr = out.frames()
            ok, g = _credit(fr, pre)
            check(ok, 'unexpected-frames-on-ack', None)
            cur = _cur(me)
            check(s_and(cur[0] == g[0], cur[1] == g[1], cur[2] == g[2]), 'window-after-ack',
                  cur)
            check(me.remote_flow_control_window(1) == s_min(g[0], g[1]),
                  'remote-window-after-ack', None)
            _inv(me, 'acknowledge')
    return h


def h_closed_connection(client):
    """on a connection that is already closed every window-changing call raises -- and, like
    any such call that raises, changes no window and emits nothing"""
    def h():
        how = sym_choice('closed_by', ['close_connection', 'goaway-received'])
        with h2h.native():
            me = _witness(client)
            if how == 'close_connection':
                me.close_connection()
            else:
                g = hf.GoAwayFrame(0)
                me.receive_data(g.serialize())
            me.data_to_send()
        pre = _pre(me)
        call = sym_choice('call', ['acknowledge', 'increment-stream', 'increment-connection'])
        out = models.Out(me)
        try:
            if call == 'acknowledge':
                me.acknowledge_received_data(sym_int('ack', 0, INT31, default=40000), 1)
            else:
                me.increment_flow_control_window(
                    sym_int('inc', 1, INT31, default=100),
                    stream_id=1 if call == 'increment-stream' else None)
        except (h2.exceptions.ProtocolError, ValueError):
            note('raised')
            check(out.nbytes() == 0, 'raise-emits', None)
            _same(me, pre, 'raise-changes-window')
            _inv(me, 'closed-raised')
        else:
            note('returned')
            # nothing may be advertised any more (C19), so nothing may have moved
            check(out.nbytes() == 0, 'closed-connection-emits', None)
            _same(me, pre, 'window-moves-without-update-on-closed-connection')
    return h


def h_settings(client):
    """update_settings(INITIAL_WINDOW_SIZE) changes nothing until the peer's ACK; the ACK
    moves every stream window by the delta (conn window untouched)."""
    def h():
        with h2h.native():
            me = _witness(client)
        gc, g1, g3 = pre = _pre(me)
        old = sym_int('old', 0, INT31, default=65535)
        new = sym_int('new', 0, INT31, default=1000)
        h2h.Adapter.set_local_setting(me, SettingCodes.INITIAL_WINDOW_SIZE, old)
        me.update_settings({SettingCodes.INITIAL_WINDOW_SIZE: new})
        _same(me, pre, 'update-settings-changes-window-before-ack')
        check(me.remote_flow_control_window(1) == s_min(gc, g1), 'remote-window-before-ack',
              None)
        ack = hf.SettingsFrame(0)
        ack.flags.add('ACK')
        out = models.Out(me)
        d = new - old
        over = s_or(s_lt(INT31, g1 + d), s_lt(INT31, g3 + d))
        try:
            evs = h2h.deliver(me, [ack])
        except h2.exceptions.ProtocolError as e:
            note('overflow')
            check(over, 'ack-error-without-overflow', (g1, g3, old, new))
            check(e.error_code == ErrorCodes.FLOW_CONTROL_ERROR, 'ack-overflow-code', None)
            fr = out.frames()
            check(len(fr) == 1 and isinstance(fr[0], hf.GoAwayFrame) and
                  fr[0].error_code == ErrorCodes.FLOW_CONTROL_ERROR, 'ack-overflow-goaway',
                  None)
        else:
            note('applied')
            check(s_not(over), 'ack-overflow-accepted', (g1, g3, old, new))
            # any WINDOW_UPDATE emitted from the ACK path is credited to the ghost
            ok, g = _credit(out.frames(), (gc, g1 + d, g3 + d))
            check(ok, 'settings-ack-unexpected-frame', None)
            cur = _cur(me)
            check(s_and(cur[0] == g[0], cur[1] == g[1], cur[2] == g[2]),
                  'window-after-ack-of-settings', cur)
            check(me.remote_flow_control_window(1) == s_min(g[0], g[1]),
                  'remote-window-after-settings', None)
            _inv(me, 'settings')
    return h


def h_settings_reserved():
    """a stream a client has been promised (reserved(remote), not open yet) has an inbound
    window as well: the acknowledged INITIAL_WINDOW_SIZE change moves it like every other
    stream, and that window is the one enforced once the pushed response arrives"""
    def h():
        with h2h.native():
            c, s = h2h.pair()
            c.send_headers(1, h2h.REQ, end_stream=True)
            h2h.pump(c, s)
            s.push_stream(1, 2, h2h.REQ)
            h2h.pump(c, s)
            me = c
            me.max_inbound_frame_size = BIGFRAME
        A = h2h.Adapter
        from engine.core import assume_z
        old = sym_int('old', 0, INT31, default=65535)
        new = sym_int('new', 0, INT31, default=1000)
        g2 = sym_int('s2_cur', -INT31 - 1, INT31, default=65535)
        m2 = sym_int('s2_max', -INT31 - 1, INT31, default=65535)
        assume_z(s_and(s_le(g2, m2), s_le(m2 - g2, INT31)))
        A.set_wm(A.stream_wm(me, 2), g2, m2, 0)
        A.set_wm(A.stream_wm(me, 1), 0, 0, 0)       # the parent cannot overflow
        A.set_local_setting(me, SettingCodes.INITIAL_WINDOW_SIZE, old)
        me.update_settings({SettingCodes.INITIAL_WINDOW_SIZE: new})
        ack = hf.SettingsFrame(0)
        ack.flags.add('ACK')
        d = new - old
        out = models.Out(me)
        try:
            h2h.deliver(me, [ack])
        except h2.exceptions.ProtocolError as e:
            note('overflow')
            check(s_lt(INT31, g2 + d), 'ack-error-without-overflow', (g2, old, new))
            return
        note('applied')
        check(s_not(s_lt(INT31, g2 + d)), 'ack-overflow-accepted', (g2, old, new))
        wm = A.stream_wm(me, 2)
        check(out.nbytes() == 0, 'reserved-stream-emits-on-ack', None)
        check(wm.current_window_size == g2 + d, 'reserved-stream-window-not-moved',
              (wm.current_window_size, g2 + d))
        check(s_and(s_le(wm.current_window_size, wm.max_window_size),
                    s_le(wm.max_window_size, INT31),
                    s_le(wm.max_window_size - wm.current_window_size, INT31)),
              'invariant-not-preserved:s2', None)
        # the pushed response arrives: DATA is judged against the moved window
        gc = A.conn_wm(me).current_window_size
        hd = hf.HeadersFrame(2)
        hd.flags.add('END_HEADERS')
        with h2h.native():
            hd.data = s.encoder.encode(h2h.RESP)
        h2h.deliver(me, [hd])
        data = sym_bytes('n', 0, BIGFRAME - 300, default=10)
        f = hf.DataFrame(2)
        f.data = data
        fits = s_and(s_le(len(data), gc), s_le(len(data), g2 + d))
        try:
            h2h.deliver(me, [f])
        except h2.exceptions.ProtocolError as e:
            note('rejected')
            check(s_not(fits), 'fitting-data-rejected', (len(data), gc, g2 + d))
            check(e.error_code == ErrorCodes.FLOW_CONTROL_ERROR, 'overrun-code', None)
        else:
            note('accepted')
            check(fits, 'overrun-accepted', (len(data), gc, g2 + d))
    return h


def h_new_stream_around_ack(client):
    """a stream created between update_settings and the ACK is advertised the OLD
    initial size and moves by the delta at the ACK; one created after starts at NEW"""
    def h():
        with h2h.native():
            c, s = h2h.pair()
            me = c if client else s
            peer = s if client else c
        old = 65535
        new = sym_int('new', 0, INT31, default=1000)
        me.update_settings({SettingCodes.INITIAL_WINDOW_SIZE: new})
        me.data_to_send()
        if client:
            me.send_headers(1, h2h.REQ_POST)
        else:
            with h2h.native():
                peer.send_headers(1, h2h.REQ_POST)
                wire = peer.data_to_send()
            me.receive_data(wire)
        check(me.streams[1].inbound_flow_control_window == old, 'pre-ack-stream-window', None)
        ack = hf.SettingsFrame(0)
        ack.flags.add('ACK')
        h2h.deliver(me, [ack])
        note('acked')
        check(me.streams[1].inbound_flow_control_window == new, 'post-ack-old-stream', None)
        if client:
            me.send_headers(3, h2h.REQ_POST)
        else:
            with h2h.native():
                peer.send_headers(3, h2h.REQ_POST)
                wire = peer.data_to_send()
            me.receive_data(wire)
        check(me.streams[3].inbound_flow_control_window == new, 'post-ack-new-stream', None)
    return h


def h_data_closed_stream(client):
    """DATA on a stream the library already closed: connection window is charged and
    credited consistently with the frames actually emitted"""
    def h():
        with h2h.native():
            me = _witness(client)
            me.reset_stream(1)
            me.data_to_send()
        A = h2h.Adapter
        gc = sym_int('conn_cur', 0, INT31, default=65535)
        cm = sym_int('conn_max', 0, INT31, default=65535)
        cp = sym_int('conn_proc', 0, INT31, default=0)
        from engine.core import assume_z
        assume_z(s_le(gc, cm))
        A.set_wm(A.conn_wm(me), gc, cm, cp)
        data = sym_bytes('n', 0, BIGFRAME - 300, default=10)
        pad = sym_int('pad', 0, 255, default=3)
        f = hf.DataFrame(1)
        f.data = data
        f.flags.add('PADDED')
        f.pad_length = pad
        fcl = len(data) + pad + 1
        out = models.Out(me)
        try:
            evs = h2h.deliver(me, [f])
        except h2.exceptions.ProtocolError as e:
            note('rejected')
            check(s_lt(gc, fcl), 'closed-fitting-data-rejected', (fcl, gc))
            check(e.error_code == ErrorCodes.FLOW_CONTROL_ERROR, 'closed-overrun-code', None)
        else:
            note('absorbed')
            check(s_le(fcl, gc), 'closed-overrun-accepted', (fcl, gc))
            g = gc - fcl
            for fr in out.frames():
                if isinstance(fr, hf.WindowUpdateFrame):
                    check(fr.stream_id == 0, 'closed-wu-stream', None)
                    check(s_between(1, fr.window_increment, INT31), 'wu-increment-range', None)
                    g = g + fr.window_increment
                else:
                    check(isinstance(fr, hf.RstStreamFrame) and fr.stream_id == 1,
                          'closed-unexpected-frame', type(fr).__name__)
            check(A.conn_wm(me).current_window_size == g, 'closed-window-after-data', None)
    return h


def shards(tier, seed):
    out = []
    for client in (True, False):
        r = 'client' if client else 'server'
        for padded in (False, True):
            out.append(Shard('recv_data/%s/%s' % (r, 'padded' if padded else 'plain'),
                             h_recv_data(client, padded), expect=['accepted', 'rejected']))
        for on_stream in (False, True):
            out.append(Shard('increment/%s/%s' % (r, 'stream' if on_stream else 'conn'),
                             h_increment(client, on_stream),
                             expect=['credited', 'range', 'overflow']))
        out.append(Shard('acknowledge/%s' % r, h_acknowledge(client), budget=90,
                         expect=['acked', 'range']))
        out.append(Shard('settings_ack/%s' % r, h_settings(client),
                         expect=['applied', 'overflow']))
        out.append(Shard('closed_connection/%s' % r, h_closed_connection(client),
                         expect=['raised']))
        out.append(Shard('new_stream_around_ack/%s' % r, h_new_stream_around_ack(client),
                         expect=['acked']))
        out.append(Shard('data_on_closed_stream/%s' % r, h_data_closed_stream(client),
                         expect=['absorbed', 'rejected']))
    out.append(Shard('settings_ack_reserved/client', h_settings_reserved(),
                     expect=['applied', 'overflow', 'accepted', 'rejected']))
    return out
