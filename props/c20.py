"""C20 -- frames racing a local stream reset never break the connection."""
from hyperframe import frame as hf

import h2.exceptions

from engine.core import check, note, sym_int, assume_z, s_le, s_and, s_eq, INT31
from engine import h2h, ops, models
from engine.runner import Shard
from props import fsm_common as F

MODELS = ['fmt_stub', 'HfSerialize', 'FrameFeed', 'LenBytes']
BOUNDS = {
    'histories': 'a stream in every non-idle, non-closed state reachable in the catalogue '
                 '(one-stream and push slices, depth <= 3) is reset by the application (or a push '
                 'is refused by the library); optionally the closed stream is collected '
                 '(open_counts); then 1-2 peer frames of every type on that stream and on streams '
                 'promised on it, numeric fields symbolic (DATA length/padding, codes, '
                 'increments, connection window content)',
}
OUTSIDE = ['closed-stream memory eviction beyond MAX_CLOSED_STREAMS (documented bound)',
           'more than two racing frames (the second step starts from the state the first left, '
           'which is again a reset-stream state)']
ASSUMPTIONS = ['a racing frame is one the peer could legally have sent before it saw the reset']


def racing_frames(sid, promised):
    A = []
    for kind in ('resp', 'info', 'trailers', 'req'):
        for end in (False, True):
            A.append(('HEADERS', sid, kind, end))
    A += [('DATA', sid, False), ('DATA', sid, True), ('DATAP', sid, False), ('WU', sid),
          ('RST', sid),
          ('PP', sid, promised), ('ALTSVC', sid, False), ('PRIORITY', sid), ('CONT', sid)]
    return A


class CountingDecoder:
    def __init__(self, real):
        self.real = real
        self.calls = 0

    def decode(self, *a, **k):
        self.calls += 1
        return self.real.decode(*a, **k)

    def __getattr__(self, n):
        return getattr(self.real, n)

    def __setattr__(self, n, v):
        if n in ('real', 'calls'):
            object.__setattr__(self, n, v)
        else:
            setattr(self.real, n, v)


def legal_for_peer(pre, op):
    """could the peer have sent this frame before seeing our RST_STREAM?  (frames that were
    illegal anyway may be connection errors)"""
    v = pre  # SView of the stream BEFORE our reset
    t = op[0]
    if t in ('WU', 'RST', 'PRIORITY', 'ALTSVC'):
        return True
    peer_done = v.st in ('half-closed(remote)',)      # peer already ended its side
    if t in ('DATA', 'DATAP'):
        return (not peer_done) and v.hr and not v.tr and v.st != 'reserved(remote)' \
            and v.st != 'reserved(local)'
    if t == 'HEADERS':
        _t, sid, kind, end = op
        if peer_done or v.st == 'reserved(local)':
            return False
        if v.requester:           # peer is the responder
            if v.st == 'reserved(remote)':
                return kind == 'resp'
            if not v.hr:
                return (kind == 'info' and not end) or kind == 'resp'
            return kind == 'trailers' and end and not v.tr
        return kind == 'trailers' and end and not v.tr     # peer is the requester
    if t == 'PP':
        return v.requester is True and not v.pushed and not peer_done and \
            v.st != 'reserved(remote)'
    if t == 'CONT':
        return False
    return False


def make(client, history, sid, collect, two_frames):
    used = [o[2] for o in history if o[0] in ('PP', 'push')]
    promised = max([0] + used) + 2
    alpha = racing_frames(sid, promised)

    def h():
        with h2h.native():
            ctx = ops.replay(client, history)
            before_reset = ctx.obs.clone().s(sid)
            o = ops.run_op(ctx, ('reset', sid))
            ctx.me.data_to_send()
            if collect:
                ops.run_op(ctx, ('open_counts',))
        if o.cls != ('ok',):
            note('reset-refused')
            return
        # arbitrary (large enough) connection window so DATA is not a flow-control matter
        dec = CountingDecoder(ctx.me.decoder)
        ctx.me.decoder = dec
        nframes = 2 if two_frames else 1
        for i in range(nframes):
            op = F.sym_choice('op%d' % i, alpha)
            if not legal_for_peer(before_reset, op):
                note('not-a-race')
                return
            calls0 = dec.calls
            win0 = ctx.me._inbound_flow_control_window_manager.current_window_size + \
                ctx.me._inbound_flow_control_window_manager._bytes_processed
            out = ops.run_op(ctx, op, symbolic=True)
            note(out.cls[0])
            check(out.cls[0] in ('accept', 'stream_error'),
                  'race:%s-on-reset-stream:%s' % (op[0], '.'.join(str(x) for x in out.cls[:2])),
                  (F.op_label(op), out.cls))
            if out.exc is None:
                for e in out.events:
                    esid = getattr(e, 'stream_id', None)
                    if type(e).__name__ == 'PushedStreamReceived':
                        esid = e.parent_stream_id
                    if type(e).__name__ == 'PriorityUpdated':
                        continue          # explicitly allowed after a reset (C07)
                    check(esid != sid and esid != promised,
                          'race:event-for-reset-stream:' + type(e).__name__, F.op_label(op))
                if op[0] in ('HEADERS', 'PP'):
                    check(dec.calls == calls0 + 1, 'race:header-block-not-decoded', op[0])
                if op[0] in ('DATA', 'DATAP'):
                    wm = ctx.me._inbound_flow_control_window_manager
                    emitted = 0
                    for f in out.frames:
                        if isinstance(f, hf.WindowUpdateFrame) and f.stream_id == 0:
                            emitted = emitted + f.window_increment
                    # every flow-controlled byte is either back in the window, announced
                    # by a WINDOW_UPDATE, or counted as processed (to be announced later)
                    check(wm.current_window_size + wm._bytes_processed == win0,
                          'race:data-not-returned-to-connection-window', None)
            ctx.me.data_to_send()
            if op[0] == 'PP' and out.cls[0] == 'stream_error':
                # the push was refused: frames on the promised stream race as well
                alpha2 = racing_frames(promised, promised + 2)
                op2 = F.sym_choice('opp', [a for a in alpha2 if a[0] in ('HEADERS', 'DATA', 'WU',
                                                                        'RST', 'DATAP')])
                if op2[0] == 'HEADERS' and op2[2] not in ('resp',):
                    note('not-a-race')
                    return
                out2 = ops.run_op(ctx, op2, symbolic=True)
                note('promised:' + out2.cls[0])
                check(out2.cls[0] in ('accept', 'stream_error'),
                      'race:%s-on-refused-promised-stream:%s' % (
                          op2[0], '.'.join(str(x) for x in out2.cls[:2])),
                      (F.op_label(op2), out2.cls))
                if out2.exc is None:
                    for e in out2.events:
                        check(getattr(e, 'stream_id', None) != promised,
                              'race:event-for-refused-stream:' + type(e).__name__, None)
                return
    return h


def shards(tier, seed):
    out = []
    seen = set()
    for client in (True, False):
        role = 'client' if client else 'server'
        for push in (False, True):
            cat = F.get_catalogue(client, 3, push=push)
            for hist, depth in cat[0]:
                if any(o[0] in ('close', 'GOAWAY', 'reset', 'open_counts') for o in hist):
                    continue
                ctx = ops.replay(client, hist)
                if ctx.obs.conn_closed is not None:
                    continue
                for sid in ((1, 2) if push else (1,)):
                    v = ctx.obs.s(sid)
                    if v.st in ('idle', 'closed'):
                        continue
                    key = (client, sid, v.key(), ctx.obs.s(3 - sid).key() if push else None)
                    if key in seen:
                        continue
                    seen.add(key)
                    for collect in (False, True):
                        two = (tier == 'thorough')
                        out.append(Shard('race/%s/sid%d/%s/%s%s' % (
                            role, sid, F.hist_name(hist), 'collected' if collect else 'present',
                            '/2frames' if two else ''),
                            make(client, list(hist), sid, collect, two), budget=150, twin=False,
                            params={'history': [list(o) for o in hist], 'reset': sid}))
    return out
