"""C07 -- received events per stream follow the HTTP message grammar for the role."""
from engine.core import check, note
from props import fsm_common as F

MODELS = ['fmt_stub', 'HfSerialize', 'FrameFeed', 'LenBytes']
BOUNDS = {
    'histories': 'catalogue witness histories (one-stream, push and two-stream slices, normal '
                 'and upgraded connections) up to the depth in the evidence, then ONE more peer '
                 'frame from the full frame alphabet (HEADERS of every kind with/without '
                 'END_STREAM, DATA, RST_STREAM, WINDOW_UPDATE, PUSH_PROMISE, CONTINUATION, '
                 'ALTSVC, PRIORITY, PING, SETTINGS, GOAWAY, unknown) with symbolic numeric fields',
    'peer frames': 'structurally generated, legal or not for the state (HEADERS on '
                   'never-promised even streams, DATA before HEADERS, frames after END_STREAM, '
                   'after RST_STREAM ...)',
}
OUTSIDE = ['header content (concrete per kind); more than three stream slots']
ASSUMPTIONS = ['the monitor (engine/monitors.py) sees only the event objects returned by '
               'receive_data; its state after a history is obtained by feeding it that '
               'history\'s events']


def judge(pre, op, out, ctx):
    if not op[0].isupper():
        note('api')
        return
    note(out.cls[0])
    if out.exc is not None:
        return
    for g in out.grammar:
        check(False, 'grammar:' + g, (F.op_label(op), [type(e).__name__ for e in out.events]))
    # role: servers only report requests, clients only responses / pushes
    for e in out.events:
        n = type(e).__name__
        if ctx.client:
            check(n != 'RequestReceived', 'client-reports-request', F.op_label(op))
        else:
            check(n not in ('ResponseReceived', 'InformationalResponseReceived',
                            'PushedStreamReceived'), 'server-reports-response', F.op_label(op))


def shards(tier, seed):
    return F.standard_shards(tier, seed, judge, alpha_filter=lambda o: o[0].isupper())
