"""C07 -- received events per stream follow the HTTP message grammar for the role."""
from engine.core import check, note
from props import fsm_common as F

MODELS = ['fmt_stub', 'HfSerialize', 'FrameFeed', 'LenBytes']
BOUNDS = {
    'histories': 'catalogue witness histories (one-stream, push and two-stream slices, normal '
                 'and upgraded connections) up to the depth in the evidence, then ONE more peer '
                 'frame from the full frame alphabet (HEADERS of every kind with/without '
                 'END_STREAM, DATA, RST_STREAM, WINDOW_UPDATE, PUSH_PROMISE, CONTINUATION, '
                 'ALTSVC, PRIORITY, PING, SETTINGS, GOAWAY, unknown) with symbolic numeric fields',
    'peer frames': 'structurally generated, legal or not for the state (HEADERS on '
                   'never-promised even streams, DATA before HEADERS, frames after END_STREAM, '
                   'after RST_STREAM ...)',
}
OUTSIDE = ['header content (concrete per kind); more than three stream slots']
ASSUMPTIONS = ['the monitor (engine/monitors.py) sees only the event objects returned by '
               'receive_data; its state after a history is obtained by feeding it that '
               'history\'s events']


def judge(pre, op, out, ctx):
    if not op[0].isupper():
        note('api')
        return
    note(out.cls[0])
    if out.exc is not None:
        return
    for g in out.grammar:
        check(False, 'grammar:' + g, (F.op_label(op), [type(e).__name__ for e in out.events]))
    # role: servers only report requests, clients only responses / pushes
    for e in out.events:
        n = type(e).__name__
        if ctx.client:
            check(n != 'RequestReceived', 'client-reports-request', F.op_label(op))
        else:
            check(n not in ('ResponseReceived', 'InformationalResponseReceived',
                            'PushedStreamReceived'), 'server-reports-response', F.op_label(op))


def frame_alphabet(client, sids):
    return [o for o in F.alphabet(client, sids=sids, push=True) if o[0].isupper()]


def shards(tier, seed):
    out = []
    depth = 9 if tier == 'thorough' else 3
    for client in (True, False):
        cat = F.get_catalogue(client, depth)
        entries = cat[0]
        sel = F.select_entries(entries, tier, seed, quick_depth=2, quick_sample=10,
                               thorough_cap=10 ** 6)
        out += F.entry_shards('one', client, sel, frame_alphabet(client, (1,)), judge,
                              cat=cat, build_ops=F.build_alphabet(client))
        pentries, _c, _k = F.get_catalogue(client, 3 if tier == 'thorough' else 2, push=True)
        pentries = [e for e in pentries if any(o[0] in ('push', 'PP') for o in e[0])]
        psel = F.select_entries(pentries, tier, seed, quick_depth=2, quick_sample=10)
        out += F.entry_shards('push', client, psel, frame_alphabet(client, (1, 2)), judge)
        tentries, _c, _k = F.get_catalogue(client, 2 if tier == 'quick' else 3, two=True)
        tsel = F.select_entries(tentries, tier, seed, quick_depth=2, quick_sample=6)
        out += F.entry_shards('two', client, tsel, frame_alphabet(client, (1, 2, 3, 5)), judge)
        uentries, _c, _k = F.get_catalogue(client, 2 if tier == 'quick' else 3, upgrade=True)
        usel = F.select_entries(uentries, tier, seed, quick_depth=1, quick_sample=6)
        out += F.entry_shards('upgrade', client, usel, frame_alphabet(client, (1,)), judge,
                              upgrade=True)
    return out
