"""C07 -- received events per stream follow the HTTP message grammar for the role."""
from engine.core import check, note
from props import fsm_common as F

MODELS = ['fmt_stub', 'HfSerialize', 'FrameFeed', 'LenBytes']
BOUNDS = {
    'histories': 'catalogue witness histories (one-stream, push and two-stream slices, normal '
                 'and upgraded connections) up to the depth in the evidence, then ONE more peer '
                 'frame from the full frame alphabet (HEADERS of every kind with/without '
                 'END_STREAM, DATA, RST_STREAM, WINDOW_UPDATE, PUSH_PROMISE, CONTINUATION, '
                 'ALTSVC, PRIORITY, PING, SETTINGS, GOAWAY, unknown) with symbolic numeric fields',
    'peer frames': 'structurally generated, legal or not for the state (HEADERS on '
                   'never-promised even streams, DATA before HEADERS, frames after END_STREAM, '
                   'after RST_STREAM ...)',
}
OUTSIDE = ['header content (concrete per kind); more than three stream slots']
ASSUMPTIONS = ['the monitor (engine/monitors.py) sees only the event objects returned by '
               'receive_data; its state after a history is obtained by feeding it that '
               'history\'s events']


def judge(pre, op, out, ctx):
    if not op[0].isupper():
        note('api')
        return
    note(out.cls[0])
    if out.exc is not None:
        return
    for g in out.grammar:
        check(False, 'grammar:' + g, (F.op_label(op), [type(e).__name__ for e in out.events]))
    # role: servers only report requests, clients only responses / pushes
    for e in out.events:
        n = type(e).__name__
        if ctx.client:
            check(n != 'RequestReceived', 'client-reports-request', F.op_label(op))
        else:
            check(n not in ('ResponseReceived', 'InformationalResponseReceived',
                            'PushedStreamReceived'), 'server-reports-response', F.op_label(op))


def h_repromise():
    """a pushed stream has run its course (promised, answered, ended, forgotten); whatever
    the peer does next with PUSH_PROMISE - on a parent we have reset or on a live one, naming
    lower, equal or higher ids - no stream id is ever reported as pushed twice, and no events
    appear again for the stream that ended"""
    from engine import ops, h2h
    from engine.core import sym_choice

    def h():
        with h2h.native():
            ctx = ops.Ctx(True)
            for o in (('send_headers', 1, 'req', False), ('send_headers', 3, 'req', False),
                      ('PP', 3, 4), ('HEADERS', 4, 'resp', True), ('open_counts',),
                      ('reset', 1)):
                ops.run_op(ctx, o)
            ctx.me.data_to_send()
        promised = {4}
        for i in range(2):
            parent = sym_choice('parent%d' % i, [1, 3])
            pid = sym_choice('promised%d' % i, [2, 4, 6])
            out = ops.run_op(ctx, ('PP', parent, pid), symbolic=True)
            note(out.cls[0])
            if out.exc is not None:
                return
            for g in out.grammar:
                check(False, 'grammar:' + g, ('PP', parent, pid))
            for e in out.events:
                if type(e).__name__ == 'PushedStreamReceived':
                    check(e.pushed_stream_id not in promised and
                          e.pushed_stream_id > max(promised),
                          'stream-id-promised-twice-or-out-of-order',
                          (e.pushed_stream_id, sorted(promised)))
                    promised.add(e.pushed_stream_id)
            if out.cls[0] == 'stream_error':
                promised.add(pid)          # a refused promise has used its id as well
        out = ops.run_op(ctx, ('HEADERS', 4, 'resp', True), symbolic=True)
        if out.exc is None:
            check(len(out.events) == 0, 'events-for-ended-pushed-stream',
                  [type(e).__name__ for e in out.events])
    return h


def shards(tier, seed):
    from engine.runner import Shard
    out = F.standard_shards(tier, seed, judge, alpha_filter=lambda o: o[0].isupper())
    out.append(Shard('repromise/client', h_repromise(), budget=150, twin=False))
    return out
