"""C12 -- SETTINGS values are validated with the RFC-mandated error codes."""
from hyperframe import frame as hf

import h2.settings
import h2.exceptions
import h2.events
from h2.settings import Settings, SettingCodes, _validate_setting
from h2.errors import ErrorCodes

from engine.core import (sym_int, sym_choice, check, note, s_and, s_or, s_not, s_eq, s_le, s_lt,
                         s_ite, s_between, INT31, INT32)
from engine import h2h, models
from engine.runner import Shard

MODELS = ['fmt_stub', 'HfSerialize', 'FrameFeed', 'SettingsBlob']
BOUNDS = {
    'setting id': '0..65535 symbolic in _validate_setting; the 7 known ids + 4 unknown ids '
                  'as concrete shards on the three routes (the id is a dict key)',
    'value': '0..2^32-1 symbolic (and -2^33..2^33 in the wide shard)',
    'stream window before an INITIAL_WINDOW_SIZE change': '-2^31..2^31-1 symbolic, 2 streams',
}
OUTSIDE = ['frames carrying more than two settings (C11 covers multi-setting frames)']
# (received frames: the setting under test alone or with one valid companion before / after)
ASSUMPTIONS = ['hyperframe parses SETTINGS into a dict id->value with 0 <= value < 2^32 '
               '(validated against the real parser on boundary values)']

KNOWN = [1, 2, 3, 4, 5, 6, 8]
UNKNOWN = [0, 7, 9, 0xFF]      # hyperframe keeps only the low 8 bits of an id it sends


def expected_code(sid, val):
    """RFC 7540 6.5.2 / RFC 8441: the mandated code, 0 when acceptable (branch-free)."""
    bad_bool = s_not(s_between(0, val, 1))
    return s_ite(s_and(s_eq(sid, 2), bad_bool), 1,
                 s_ite(s_and(s_eq(sid, 8), bad_bool), 1,
                       s_ite(s_and(s_eq(sid, 4), s_not(s_between(0, val, INT31))), 3,
                             s_ite(s_and(s_eq(sid, 5),
                                         s_not(s_between(16384, val, 16777215))), 1,
                                   s_ite(s_and(s_eq(sid, 6), s_lt(val, 0)), 1, 0)))))


def h_validate(lo, hi):
    def h():
        sid = sym_int('id', 0, 65535)
        val = sym_int('value', lo, hi)
        got = _validate_setting(sid, val)
        exp = expected_code(sid, val)
        if got:
            note('rejected')
        else:
            note('accepted')
        check(got == exp, 'validate-code', (sid, val, got, exp))
    return h


def h_initial(code):
    def h():
        val = sym_int('value', 0, INT32)
        exp = expected_code(code, val)
        try:
            s = Settings(client=True, initial_values={code: val})
        except h2.exceptions.InvalidSettingsValueError as e:
            note('rejected')
            check(exp != 0, 'initial-rejected-valid', (code, val))
            check(e.error_code == exp, 'initial-code', (code, val, e.error_code))
        else:
            note('accepted')
            check(exp == 0, 'initial-accepted-invalid', (code, val))
            check(s[code] == val, 'initial-value', (code, val))
    return h


def h_update(code, client):
    def h():
        with h2h.native():
            c, s = h2h.pair()
            me = c if client else s
        val = sym_int('value', 0, INT32)
        exp = expected_code(code, val)
        out = models.Out(me)
        before = me.local_settings.get(code, None)
        try:
            me.update_settings({code: val})
        except h2.exceptions.InvalidSettingsValueError as e:
            note('rejected')
            check(exp != 0, 'update-rejected-valid', (code, val))
            check(e.error_code == exp, 'update-code', (code, val, e.error_code))
            check(out.nbytes() == 0, 'update-raise-emits', None)
            check(me.local_settings.get(code, None) == before, 'update-raise-changes', None)
        else:
            note('accepted')
            check(exp == 0, 'update-accepted-invalid', (code, val))
            fr = out.frames()
            check(len(fr) == 1 and isinstance(fr[0], hf.SettingsFrame) and
                  'ACK' not in fr[0].flags, 'update-frame', None)
            check(fr[0].settings.get(code) == val, 'update-frame-value', None)
    return h


def h_receive(code, client):
    def h():
        with h2h.native():
            c, s = h2h.pair()
            me = c if client else s
        val = sym_int('value', 0, INT32)
        exp = expected_code(code, val)
        f = hf.SettingsFrame(0)
        # the setting under test alone, or with a valid companion before / after it in the
        # frame: the verdict and the code are those of the offending setting
        where = sym_choice('companion', ['none', 'before', 'after'])
        if where == 'before':
            f.settings = {}
            h2h.sym_companion(f.settings, role_client=not client, exclude=(code, 4))
            f.settings[code] = val
        else:
            f.settings = {code: val}
            if where == 'after':
                h2h.sym_companion(f.settings, role_client=not client, exclude=(code, 4))
        ncomp = len(f.settings) - 1
        out = models.Out(me)
        try:
            evs = h2h.deliver(me, [f])
        except h2.exceptions.ProtocolError as e:
            note('rejected')
            check(exp != 0, 'recv-rejected-valid', (code, val))
            check(e.error_code == exp, 'recv-exc-code', (code, val, e.error_code))
            fr = out.frames()
            check(len(fr) == 1 and isinstance(fr[0], hf.GoAwayFrame), 'recv-one-goaway', None)
            if len(fr) == 1 and isinstance(fr[0], hf.GoAwayFrame):
                check(fr[0].error_code == exp, 'recv-goaway-code', (code, val))
        else:
            note('accepted')
            check(exp == 0, 'recv-accepted-invalid', (code, val))
            check(len(evs) == 1 and isinstance(evs[0], h2.events.RemoteSettingsChanged),
                  'recv-event', None)
            fr = out.frames()
            check(len(fr) == 1 and isinstance(fr[0], hf.SettingsFrame) and
                  'ACK' in fr[0].flags, 'recv-ack', None)
            check(me.remote_settings[code] == val, 'recv-applied', (code, val))
    return h


def h_overflow(client, reserved=False):
    """INITIAL_WINDOW_SIZE change pushing a stream window above 2^31-1 is a
    FLOW_CONTROL_ERROR connection error; otherwise accepted.  reserved=True: stream 3 is
    replaced by a stream the server has promised and not opened yet (it has a window too)"""
    def h():
        with h2h.native():
            c, s = h2h.pair()
            c.send_headers(1, h2h.REQ)
            if not reserved:
                c.send_headers(3, h2h.REQ)
            h2h.pump(c, s)
            if reserved:
                s.push_stream(1, 2, h2h.REQ)
                s.data_to_send()
            me = c if client else s
        old = sym_int('old_iws', 0, INT31, default=65535)
        new = sym_int('new_iws', 0, INT31, default=70000)
        w1 = sym_int('w1', -INT31 - 1, INT31, default=65535)
        w3 = sym_int('w3', -INT31 - 1, INT31, default=65535)
        h2h.Adapter.set_remote_initial_window(me, old)
        other = 2 if reserved else 3
        h2h.Adapter.set_stream_out_window(me, 1, w1)
        h2h.Adapter.set_stream_out_window(me, other, w3)
        f = hf.SettingsFrame(0)
        f.settings = {4: new}
        out = models.Out(me)
        over = s_or(s_lt(INT31, w1 + (new - old)), s_lt(INT31, w3 + (new - old)))
        try:
            h2h.deliver(me, [f])
        except h2.exceptions.ProtocolError as e:
            note('overflow')
            check(over, 'overflow-rejected-fitting', (old, new, w1, w3))
            check(e.error_code == ErrorCodes.FLOW_CONTROL_ERROR, 'overflow-exc-code',
                  e.error_code)
            fr = out.frames()
            check(len(fr) == 1 and isinstance(fr[0], hf.GoAwayFrame) and
                  fr[0].error_code == 3, 'overflow-goaway', None)
        else:
            note('fits')
            check(s_not(over), 'overflow-accepted', (old, new, w1, w3))
            check(me.streams[1].outbound_flow_control_window == w1 + (new - old),
                  'overflow-window-1', None)
            check(me.streams[other].outbound_flow_control_window == w3 + (new - old),
                  'overflow-window-3', None)
    return h


def shards(tier, seed):
    out = [
        Shard('validate/0..2^32-1', h_validate(0, INT32), expect=['rejected', 'accepted']),
        Shard('validate/wide', h_validate(-2 ** 33, 2 ** 33), expect=['rejected', 'accepted']),
    ]
    ids = KNOWN + (UNKNOWN if tier == 'thorough' else UNKNOWN[:2])
    for code in ids:
        out.append(Shard('initial/id=%d' % code, h_initial(code), expect=['accepted']))
        for client in (True, False):
            if tier == 'quick' and not client and code not in (2, 4, 5):
                continue
            r = 'client' if client else 'server'
            out.append(Shard('update/%s/id=%d' % (r, code), h_update(code, client),
                             expect=['accepted']))
            out.append(Shard('receive/%s/id=%d' % (r, code), h_receive(code, client),
                             expect=['accepted']))
    from props import c04
    for client in (True, False):
        out.append(Shard('overflow/%s' % ('client' if client else 'server'),
                         h_overflow(client), expect=['overflow', 'fits']))
        if not client:
            out.append(Shard('overflow/server/reserved-stream', h_overflow(False, True),
                             expect=['overflow', 'fits']))
        # the same rule for OUR initial window size once the peer acknowledges it
        out.append(Shard('overflow_inbound/%s' % ('client' if client else 'server'),
                         c04.h_settings(client), expect=['applied', 'overflow']))
    # fourth route: the HTTP2-Settings header of an h2c upgrade
    from props import c25
    out.append(Shard('upgrade_header', c25.h_invalid_header_settings(),
                     expect=['refused', 'upgraded']))
    return out
