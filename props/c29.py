"""C29 -- API misuse is reported only through documented exceptions and emits nothing."""
from hyperframe import frame as hf

import h2.events
import h2.exceptions
from h2.exceptions import NoSuchStreamError, StreamClosedError
from h2.settings import SettingCodes

from engine.core import (check, note, sym_int, sym_bool, sym_choice, assume_z, s_le, s_lt, s_and,
                         s_or, s_not, s_eq, INT31, INT32, CTX, is_symbolic)
from engine import h2h, ops, models, symmap, fingerprint
from engine.models import sym_bytes
from engine.observer import OPEN, HCR, HCL, CLOSED, IDLE, RES_REMOTE, RES_LOCAL
from engine.runner import Shard
from props import fsm_common as F

MODELS = ['fmt_stub', 'HfSerialize', 'FrameFeed', 'LenBytes', 'SymMap']
BOUNDS = {
    'programs': 'every distinct observer state of the catalogue (all slices, including streams '
                'that were closed and collected) followed by ONE public call',
    'stream id argument': '1..2^31-1 symbolic (live, forgotten and never-used ids alike; '
                          'conn.streams is a hash-free map for the step)',
    'other arguments': 'data length 0..70000, pad_length None or -2..257, error codes 0..2^32-1, '
                       'increments -1..2^31, acknowledged size -1..2^31, weight -1..258, '
                       'end_stream flag, header list by kind: all symbolic / solver-chosen',
}
OUTSIDE = ['arguments of the wrong type (the property quantifies over well-typed calls)',
           'stream id 0 or negative ids for stream-level calls']
ASSUMPTIONS = ['conn.streams is used through the mapping protocol only (static scan)']
VALIDATORS = [symmap.scan_streams_usage]

CALLS = ['send_data', 'end_stream', 'reset_stream', 'increment_flow_control_window',
         'push_stream', 'advertise_alternative_service', 'local_flow_control_window',
         'remote_flow_control_window', 'acknowledge_received_data', 'prioritize',
         'send_headers']
MUST_KNOW_STREAM = ('send_data', 'end_stream', 'reset_stream', 'increment_flow_control_window',
                    'local_flow_control_window', 'remote_flow_control_window',
                    'advertise_alternative_service', 'push_stream')
NO_STREAM_CALLS = ['ping', 'update_settings', 'close_connection', 'increment_conn_window',
                   'data_to_send', 'get_next_available_stream_id', 'open_counts',
                   'advertise_origin']


def do_call(me, name, sid):
    if name == 'send_data':
        pad = sym_choice('pad_kind', [None, 'int'])
        if pad == 'int':
            pad = sym_int('pad', -2, 257, default=3)
        me.send_data(sid, sym_bytes('dlen', 0, 70000, default=4), end_stream=sym_bool('end'),
                     pad_length=pad)
    elif name == 'end_stream':
        me.end_stream(sid)
    elif name == 'reset_stream':
        me.reset_stream(sid, sym_int('code', 0, INT32, default=8))
    elif name == 'increment_flow_control_window':
        me.increment_flow_control_window(sym_int('inc', -1, 2 ** 31, default=5), stream_id=sid)
    elif name == 'push_stream':
        me.push_stream(sid, sym_choice('promised', [2, 4, 6, 3]), h2h.REQ)
    elif name == 'advertise_alternative_service':
        me.advertise_alternative_service(b'h2=":443"', stream_id=sid)
    elif name == 'local_flow_control_window':
        me.local_flow_control_window(sid)
    elif name == 'remote_flow_control_window':
        me.remote_flow_control_window(sid)
    elif name == 'acknowledge_received_data':
        me.acknowledge_received_data(sym_int('ack', -1, 2 ** 31, default=40000), sid)
    elif name == 'prioritize':
        me.prioritize(sid, weight=sym_int('weight', -1, 258, default=16),
                      depends_on=sym_int('dep', 0, INT31, default=0))
    elif name == 'send_headers':
        kind = sym_choice('kind', ['req', 'resp', 'info', 'trailers', 'bad'])
        me.send_headers(sid, ops.KIND_HEADERS[kind], end_stream=sym_bool('end'))
    elif name == 'ping':
        me.ping(sym_bytes('plen', 0, 16, default=8))
    elif name == 'update_settings':
        code = sym_choice('setting', [1, 2, 3, 4, 5, 6, 8, 99])
        me.update_settings({code: sym_int('value', 0, INT32, default=1)})
    elif name == 'close_connection':
        me.close_connection(sym_int('code', 0, INT32, default=0),
                            last_stream_id=sym_choice('last', [None, 0, 1, 7]))
    elif name == 'increment_conn_window':
        me.increment_flow_control_window(sym_int('inc', -1, 2 ** 31, default=5))
    elif name == 'data_to_send':
        me.data_to_send(sym_choice('amount', [None, 0, 1, 100]))
    elif name == 'get_next_available_stream_id':
        me.get_next_available_stream_id()
    elif name == 'open_counts':
        me.open_outbound_streams
        me.open_inbound_streams
    elif name == 'advertise_origin':
        me.advertise_alternative_service(b'h2=":443"', origin=b'example.org')


def make(client, history, upgrade, with_stream):
    def h():
        with h2h.native():
            ctx = ops.replay(client, history, upgrade=upgrade)
            pre = ctx.obs.clone()
        me = ctx.me
        live = sorted(me.streams.keys())
        if with_stream:
            name = sym_choice('call', CALLS)
            sid = sym_int('sid', 1, INT31, default=1)
            symmap.linear_streams(me)
        else:
            name = sym_choice('call', NO_STREAM_CALLS)
            sid = None
        # arbitrary inbound window content so that acknowledgements have something to credit
        A = h2h.Adapter
        cur = sym_int('conn_cur', 0, 65535, default=100)
        p = sym_int('conn_P', 0, 65535, default=30000)
        A.set_wm(A.conn_wm(me), cur, 65535, p)
        out = models.Out(me)
        pre_marks = (me.highest_outbound_stream_id, me.highest_inbound_stream_id)
        exc = None
        try:
            do_call(me, name, sid)
        except Exception as e:      # noqa  (CrossHair control flow is BaseException)
            exc = e
        if exc is None:
            note('ok')
            if with_stream and name in MUST_KNOW_STREAM and pre.conn_closed is None:
                # a call that acts on an existing stream cannot succeed for an id that is
                # not in the stream table (closed-and-forgotten or never used)
                known = False
                for l in live:
                    known = s_or(known, s_eq(sid, l))
                check(known, 'call-on-unknown-stream-succeeds:' + name, sid)
            return
        note(type(exc).__name__)
        ok_types = (h2.exceptions.H2Error, ValueError, TypeError)
        check(isinstance(exc, ok_types), 'undocumented-exception:%s:%s' % (
            type(exc).__name__, name), None)
        if name != 'data_to_send':
            check(out.nbytes() == 0, 'raising-call-emits:' + name, None)
        # a call that raises has used no stream id: the marks that decide between
        # StreamClosedError and NoSuchStreamError for LATER calls have not moved
        own_mark, peer_mark = me.highest_outbound_stream_id, me.highest_inbound_stream_id
        check(peer_mark == pre_marks[1], 'raising-call-moves-peer-stream-id-mark:' + name,
              (pre_marks[1], peer_mark))
        check(own_mark == pre_marks[0], 'raising-call-moves-own-stream-id-mark:' + name,
              (pre_marks[0], own_mark))
        if with_stream and name not in ('prioritize', 'send_headers') and \
                pre.conn_closed is None and isinstance(exc, h2.exceptions.NoSuchStreamError):
            # which of the two "unknown stream" errors?  decided by the high-water mark
            if sid in live:
                return
            own_parity = 1 if client else 0
            own = s_eq(sid - 2 * (sid // 2), own_parity)
            mark_out, mark_in = pre.highest_out, pre.highest_in
            forgotten = s_or(s_and(own, s_le(sid, mark_out)),
                             s_and(s_not(own), s_le(sid, mark_in)))
            for c_sid, v in pre.streams.items():
                if v.st == CLOSED:       # e.g. a promised stream the library refused
                    forgotten = s_or(forgotten, s_eq(sid, c_sid))
            if type(exc) is StreamClosedError:
                check(forgotten, 'streamclosederror-for-never-used-id:' + name, sid)
            elif type(exc) is NoSuchStreamError:
                check(s_not(forgotten), 'nosuchstreamerror-for-forgotten-id:' + name, sid)
        if with_stream and name == 'acknowledge_received_data' and \
                isinstance(exc, StreamClosedError):
            check(False, 'acknowledge-raises-for-forgotten-stream', sid)
    return h


def shards(tier, seed):
    out = []
    for client in (True, False):
        role = 'client' if client else 'server'
        seen = set()
        for sl in F.slices(tier, seed, client):
            for hist, depth in sl['entries']:
                ctx = ops.replay(client, hist, upgrade=sl['upgrade'])
                key = (sl['upgrade'], ctx.obs.key(), tuple(sorted(ctx.me.streams)))
                if key in seen:
                    continue
                seen.add(key)
                name = ('upgrade:' if sl['upgrade'] else '') + F.hist_name(hist)
                for with_stream in (True, False):
                    out.append(Shard('%s/%s/%s' % ('stream_calls' if with_stream else
                                                   'conn_calls', role, name),
                                     make(client, list(hist), sl['upgrade'], with_stream),
                                     budget=150, twin=False,
                                     params={'history': [list(o) for o in hist]}))
    return out
