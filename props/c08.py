"""C08 -- the library refuses to emit messages that violate HTTP/2 message rules."""
from hyperframe import frame as hf

import h2.exceptions

from engine.core import check, note
from engine.observer import IDLE, CLOSED
from props import fsm_common as F

MODELS = ['fmt_stub', 'HfSerialize', 'FrameFeed', 'LenBytes']
BOUNDS = {
    'programs': 'catalogue witness histories (new, inbound, pushed and upgraded streams; one, '
                'two and push slices) followed by ONE more public call from the full API '
                'alphabet (send_headers of every block kind with/without end_stream, send_data, '
                'end_stream, push_stream, prioritize, advertise_alternative_service, ...)',
}
OUTSIDE = ['header content beyond the block kind (C14)']
ASSUMPTIONS = ['the sender grammar is judged on the frames actually emitted (capture list / '
               'real bytes natively) against the observer state before the call']

REQUEST_KINDS = ('req', 'post', 'head')


def judge(pre, op, out, ctx):
    if op[0].isupper():
        note('frame')
        return
    note(out.cls[0])
    client = ctx.client
    if out.cls[0] == 'crash':
        check(False, 'crash:%s:%s' % (out.cls[1], op[0]), F.op_label(op))
        return
    if out.cls[0] == 'refused':
        check(len(out.frames) == 0, 'refused-call-emits:' + op[0], F.op_label(op))
        return
    for f in out.frames:
        sid = f.stream_id
        v = pre.s(sid) if sid else None
        tag = '%s@%s' % (op[0], v.st if v else 'conn')
        if isinstance(f, hf.HeadersFrame):
            end = 'END_STREAM' in f.flags
            # priority information travels in HEADERS as well as in PRIORITY frames
            check(client or 'PRIORITY' not in f.flags, 'server-sends-priority-in-headers',
                  F.op_label(op))
            if v.st == IDLE:
                check(client, 'server-opens-stream-with-headers', F.op_label(op))
                if ctx.me.config.validate_outbound_headers:
                    # with validation switched off the application vouches for the content
                    check(op[0] == 'send_headers' and op[2] in REQUEST_KINDS,
                          'stream-opened-with-non-request', F.op_label(op))
            elif v.st == CLOSED:
                check(False, 'headers-on-closed-stream', F.op_label(op))
            elif op[0] == 'send_headers' and op[2] == 'info' and v.requester is False:
                # a 1xx block sent by the responding side of the stream
                check(not v.hs, 'informational-after-final-response', F.op_label(op))
                check(not end, 'informational-with-end-stream', F.op_label(op))
            elif v.hs:
                check(not v.ts, 'headers-after-trailers', F.op_label(op))
                check(end, 'trailers-without-end-stream', F.op_label(op))
        elif isinstance(f, hf.DataFrame):
            who = 'responder' if v.requester is False else 'requester'
            check(v.hs, 'data-or-end-stream-before-final-headers:%s:%s%s:%s' % (
                who, v.st, '/pushed' if v.pushed else '', op[0]), F.op_label(op))
            check(not v.ts, 'data-after-trailers', F.op_label(op))
        elif isinstance(f, hf.PushPromiseFrame):
            check(not client, 'client-pushes', F.op_label(op))
        elif isinstance(f, hf.AltSvcFrame):
            check(not client, 'client-advertises-altsvc', F.op_label(op))
        elif isinstance(f, hf.PriorityFrame):
            check(client, 'server-sends-priority', F.op_label(op))


def h_after_refused_open():
    """a client's send_headers on a NEW stream id is refused (solver-chosen reason: not a
    request, a response block, no authority, host/authority mismatch, empty :path, TE, ...);
    nothing was sent, so the stream does not exist: DATA, END_STREAM or trailers on that id are
    refused as well and emit nothing"""
    from engine import ops, h2h, models
    from engine.core import sym_choice, sym_bool

    def h():
        earlier = sym_choice('earlier_stream', [False, True])
        with h2h.native():
            ctx = ops.Ctx(True)
            if earlier:
                ops.run_op(ctx, ('send_headers', 1, 'req', False))
                ctx.me.data_to_send()
        me = ctx.me
        sid = 3
        kind = sym_choice('refused_block', ['bad', 'resp', 'info', 'trailers', 'noauth',
                                            'hostmismatch', 'emptypath', 'te'])
        block = ops.KIND_HEADERS.get(kind) if kind != 'te' else \
            list(h2h.REQ) + [(b'te', b'gzip')]
        out = models.Out(me)
        try:
            me.send_headers(sid, block, end_stream=sym_bool('end_stream'))
        except h2.exceptions.ProtocolError:
            note('refused')
        else:
            note('accepted')
            return
        check(out.nbytes() == 0, 'refused-call-emits:send_headers', kind)
        nxt = sym_choice('then', ['send_data', 'end_stream', 'trailers', 'reset'])
        try:
            if nxt == 'send_data':
                me.send_data(sid, b'x')
            elif nxt == 'end_stream':
                me.end_stream(sid)
            elif nxt == 'trailers':
                me.send_headers(sid, h2h.TRAILERS, end_stream=True)
            else:
                me.reset_stream(sid)
        except h2.exceptions.ProtocolError:
            pass
        for f in out.frames():
            check(False, 'frame-on-a-stream-never-opened-with-request-headers:%s:after-refused-%s'
                  % (type(f).__name__, kind), nxt)
    return h


def extra_ops(client, sids):
    A = []
    for sid in sids:
        A += [('send_headers', sid, 'post', False), ('send_headers', sid, 'resp204', True)]
        for kind in (('req',) if client else ('resp', 'info', 'trailers')):
            A.append(('send_headers', sid, kind, kind == 'trailers', 'prio'))
    return A


def shards(tier, seed):
    from engine.runner import Shard
    out = F.standard_shards(tier, seed, judge, alpha_filter=lambda o: not o[0].isupper(),
                            novalidate=True, extra_ops=extra_ops)
    out.append(Shard('after_refused_open/client', h_after_refused_open(), budget=150,
                     twin=False, expect=['refused']))
    return out
