"""C09 -- stream identifiers are allocated and checked per RFC 7540 section 5.1.1."""
from hyperframe import frame as hf

import h2.events
import h2.exceptions
from h2.errors import ErrorCodes
from h2.stream import StreamClosedBy
from h2.utilities import SizeLimitDict

from engine.core import (sym_int, sym_bool, sym_choice, check, note, assume_z, s_and, s_or,
                         s_not, s_eq, s_le, s_lt, s_ite, INT31, CTX)
from engine import h2h, models, symmap, fingerprint
from engine.runner import Shard
from props import c23

MODELS = ['fmt_stub', 'HfSerialize', 'FrameFeed', 'SymMap']
BOUNDS = {
    'stream id / promised id': '1..2^31-1 (symbolic)',
    'highest_outbound_stream_id, highest_inbound_stream_id': '0..2^31-1 of the right parity '
                                                             '(symbolic)',
    'how a forgotten stream closed': 'symbolic choice: not remembered, or any of the four '
                                     'StreamClosedBy values',
    'live streams': 'none, or one open parent stream (push cases)',
}
OUTSIDE = ['ids above 2^31-1 passed to send_headers/push_stream (the property quantifies up to '
           'the 2^31-1 boundary; beyond it h2 masks the id to 31 bits when serialising)',
           'HEADERS on even ids received by a client (see C07/C22)']
ASSUMPTIONS = ['h2 reads conn.streams and conn._closed_streams through the mapping protocol '
               'only (static scan at every run), so a linear-lookup map may stand in for the '
               'dict when the key is symbolic',
               'hyperframe delivers PUSH_PROMISE only with an even, non-zero promised id']
VALIDATORS = [symmap.scan_streams_usage]

CLOSED_BY = [None, StreamClosedBy.SEND_END_STREAM, StreamClosedBy.RECV_END_STREAM,
             StreamClosedBy.SEND_RST_STREAM, StreamClosedBy.RECV_RST_STREAM]


def _sym_parity(name, parity, default):
    """0, or a value of the given parity in 1..2^31-1"""
    v = sym_int(name, 0, INT31, default=default)
    k = sym_int(name + '_half', 0, 2 ** 30, default=default // 2)
    assume_z(s_or(s_eq(v, 0), s_eq(v, 2 * k + parity)))
    if parity == 0:
        pass
    return v


def _set_marks(me, out_mark, in_mark):
    for n in ('highest_outbound_stream_id', 'highest_inbound_stream_id'):
        if not hasattr(me, n):
            raise h2h.HarnessError("adapter: no attribute %s" % n)
    me.highest_outbound_stream_id = out_mark
    me.highest_inbound_stream_id = in_mark


def _install_closed(me, sid, others=(), name='closed_by'):
    """how the (forgotten) stream `sid` closed is a solver choice; every other id (natively:
    the ids in `others`, i.e. the high-water marks) gets an independent choice"""
    cb = sym_choice(name, CLOSED_BY, default=None)
    ocb = sym_choice(name + '_of_other_ids', CLOSED_BY, default=None)
    if CTX.mode == 'sym':
        me._closed_streams = symmap.OneKeyOracle(cb is not None, cb, key=sid,
                                                 ohas=ocb is not None, ovalue=ocb)
    else:
        if ocb is not None:
            for o in others:
                if o and o != sid:
                    me._closed_streams[o] = ocb
        if cb is not None:
            me._closed_streams[sid] = cb
    return cb


def _is_reset(cb):
    return cb in (StreamClosedBy.SEND_RST_STREAM, StreamClosedBy.RECV_RST_STREAM)


def _is_end(cb):
    return cb in (StreamClosedBy.SEND_END_STREAM, StreamClosedBy.RECV_END_STREAM)


def h_next_id(client):
    def h():
        with h2h.native():
            c, s = h2h.pair()
            me = c if client else s
        par = 1 if client else 0
        H = _sym_parity('highest_out', par, 5 if client else 4)
        _set_marks(me, H, 0)
        try:
            nid = me.get_next_available_stream_id()
        except h2.exceptions.NoAvailableStreamIDError:
            note('exhausted')
            # none left: every id of our parity above H exceeds 2^31-1
            first = s_ite(s_eq(H, 0), 2 - par, H + 2)
            check(s_lt(INT31, first), 'exhausted-too-early', H)
            return
        note('allocated')
        first = s_ite(s_eq(H, 0), 2 - par, H + 2)
        check(s_eq(nid, first), 'not-the-smallest-free-id', (H, nid))
        check(s_and(s_le(nid, INT31), s_lt(H, nid), s_eq(nid - 2 * (nid // 2), par)),
              'allocated-id-invalid', (H, nid))
        # the returned id is usable (clients) and becomes the new high-water mark
        if client:
            symmap.linear_streams(me)
            out = models.Out(me)
            me.send_headers(nid, h2h.REQ)
            check(me.highest_outbound_stream_id == nid, 'mark-not-advanced', None)
            fr = out.frames()
            check(len(fr) == 1 and fr[0].stream_id == nid, 'frame-stream-id', None)
    return h


def h_send_headers_id():
    """client opens a stream with a user-chosen id"""
    def h():
        with h2h.native():
            c, s = h2h.pair()
        H = _sym_parity('highest_out', 1, 5)
        Hin = _sym_parity('highest_in', 0, 0)
        _set_marks(c, H, Hin)
        sid = sym_int('sid', 1, INT31, default=7)
        symmap.linear_streams(c)
        out = models.Out(c)
        ok = s_and(s_lt(H, sid), s_eq(sid - 2 * (sid // 2), 1))
        try:
            c.send_headers(sid, h2h.REQ)
        except h2.exceptions.StreamIDTooLowError:
            note('too-low')
            odd = s_eq(sid - 2 * (sid // 2), 1)
            # (an id of the peer's parity is compared with the peer's mark)
            check(s_ite(odd, s_le(sid, H), s_le(sid, Hin)), 'toolow-for-higher-id',
                  (sid, H, Hin))
            check(out.nbytes() == 0, 'raise-emits', None)
            check(c.highest_outbound_stream_id == H, 'raise-moves-mark', None)
            check(c.highest_inbound_stream_id == Hin, 'raise-moves-peer-mark', None)
        except h2.exceptions.ProtocolError:
            note('refused')
            check(s_not(ok), 'valid-id-refused', (sid, H))
            check(out.nbytes() == 0, 'raise-emits', None)
            check(c.highest_outbound_stream_id == H, 'raise-moves-mark', None)
            check(c.highest_inbound_stream_id == Hin, 'raise-moves-peer-mark', None)
        else:
            note('opened')
            check(ok, 'invalid-id-accepted', (sid, H))
            check(c.highest_outbound_stream_id == sid, 'mark-not-advanced', None)
            fr = out.frames()
            check(len(fr) == 1 and isinstance(fr[0], hf.HeadersFrame) and
                  fr[0].stream_id == sid, 'frame-stream-id', None)
    return h


def _server_with_parent():
    c, s = h2h.pair()
    c.send_headers(1, h2h.REQ)
    h2h.pump(c, s)
    return c, s


def h_push_id():
    """server promises a user-chosen id on parent stream 1 (open, or already ended by the
    server: then the push is refused by the parent after the id checks passed)"""
    def h():
        ended = sym_choice('parent', ['open', 'ended-by-us']) == 'ended-by-us'
        with h2h.native():
            c, s = _server_with_parent()
            if ended:
                s.send_headers(1, h2h.RESP, end_stream=True)
                s.data_to_send()
        H = _sym_parity('highest_out', 0, 4)
        Hin = _sym_parity('highest_in', 1, 1)
        _set_marks(s, H, Hin)
        pid = sym_int('promised', 1, INT31, default=6)
        symmap.linear_streams(s)
        out = models.Out(s)
        ok = s_and(s_lt(H, pid), s_eq(pid - 2 * (pid // 2), 0), not ended)
        try:
            s.push_stream(1, pid, h2h.REQ)
        except h2.exceptions.ProtocolError:
            note('refused')
            check(s_not(ok), 'valid-promised-id-refused', (pid, H))
            check(out.nbytes() == 0, 'raise-emits', None)
            check(s.highest_outbound_stream_id == H, 'raise-moves-mark', None)
            check(s.highest_inbound_stream_id == Hin, 'raise-moves-peer-mark', None)
        else:
            note('pushed')
            check(ok, 'invalid-promised-id-accepted', (pid, H))
            check(s.highest_outbound_stream_id == pid, 'mark-not-advanced', None)
            fr = out.frames()
            check(len(fr) == 1 and isinstance(fr[0], hf.PushPromiseFrame) and
                  fr[0].stream_id == 1 and fr[0].promised_stream_id == pid,
                  'push-frame-ids', None)
    return h


def _error_class(me, out, evs, exc, cb, too_low, tag, sid):
    """peer opened / promised an unusable id: check the error class"""
    fr = out.frames() if exc is None or True else []
    if exc is None:
        note('stream-error')
        check(s_and(too_low, _is_reset(cb)), tag + '-stream-error-wrong-class', (sid, cb))
        check(len(fr) == 1 and isinstance(fr[0], hf.RstStreamFrame) and
              fr[0].stream_id == sid and fr[0].error_code == ErrorCodes.STREAM_CLOSED,
              tag + '-rst-frame', [h2h.frame_sig(f) for f in fr])
        check(len(evs) == 0, tag + '-stream-error-events', h2h.ev_names(evs))
        return
    code = exc.error_code
    check(len(fr) == 1 and isinstance(fr[0], hf.GoAwayFrame) and fr[0].error_code == code,
          tag + '-goaway', [h2h.frame_sig(f) for f in fr])
    if code == ErrorCodes.STREAM_CLOSED:
        note('stream-closed')
        check(s_and(too_low, _is_end(cb)), tag + '-stream-closed-wrong-class', (sid, cb))
    else:
        note('protocol-error')
        check(code == ErrorCodes.PROTOCOL_ERROR, tag + '-code', code)
        check(s_or(s_not(too_low), cb is None), tag + '-protocol-error-wrong-class',
              (sid, cb))


def h_recv_headers_id():
    """server receives HEADERS that would open stream `sid`"""
    def h():
        with h2h.native():
            c, s = h2h.pair()
            c.send_headers(1, h2h.REQ)
            wire = c.data_to_send()
            c2, s = h2h.pair()
        Hin = _sym_parity('highest_in', 1, 5)
        Hout = _sym_parity('highest_out', 0, 4)
        _set_marks(s, Hout, Hin)
        sid = sym_int('sid', 1, INT31, default=7)
        cb = _install_closed(s, sid, others=(Hin, Hout))
        symmap.linear_streams(s)
        f = hf.HeadersFrame(sid)
        f.flags.add('END_HEADERS')
        with h2h.native():
            f.data = models.parse_frames(wire)[0].data
        odd = s_eq(sid - 2 * (sid // 2), 1)
        ok = s_and(odd, s_lt(Hin, sid))
        too_low = s_ite(odd, s_le(sid, Hin), s_le(sid, Hout))
        out = models.Out(s)
        try:
            evs = h2h.deliver(s, [f])
        except h2.exceptions.ProtocolError as e:
            check(s_not(ok), 'valid-peer-id-refused', (sid, Hin))
            _error_class(s, out, [], e, cb, too_low, 'headers', sid)
            return
        if out.nbytes():
            check(s_not(ok), 'valid-peer-id-refused', (sid, Hin))
            _error_class(s, out, evs, None, cb, too_low, 'headers', sid)
            return
        note('opened')
        check(ok, 'invalid-peer-id-accepted', (sid, Hin, Hout))
        check(s.highest_inbound_stream_id == sid, 'mark-not-advanced', None)
        check(len(evs) == 1 and isinstance(evs[0], h2.events.RequestReceived) and
              evs[0].stream_id == sid, 'request-event', h2h.ev_names(evs))
    return h


def h_recv_headers_id_client():
    """client receives HEADERS on a stream id it does not track: never legal as an opening
    frame (only PUSH_PROMISE opens peer streams), and classified by how that id was closed -
    stream error if it was reset, STREAM_CLOSED if it ended, PROTOCOL_ERROR if it was never
    used (incl. the id EQUAL to the highest promised one)"""
    def h():
        with h2h.native():
            c, s = _server_with_parent()
            s.send_headers(1, h2h.RESP)
            wire = s.data_to_send()
        Hin = _sym_parity('highest_in', 0, 4)
        Hout = _sym_parity('highest_out', 1, 5)
        _set_marks(c, Hout, Hin)
        sid = sym_int('sid', 1, INT31, default=4)
        cb = _install_closed(c, sid, others=(Hin, Hout))
        symmap.linear_streams(c)
        assume_z(s_not(s_eq(sid, 1)))        # stream 1 is the live parent
        f = hf.HeadersFrame(sid)
        f.flags.add('END_HEADERS')
        with h2h.native():
            f.data = models.parse_frames(wire)[0].data
        odd = s_eq(sid - 2 * (sid // 2), 1)
        too_low = s_ite(odd, s_le(sid, Hout), s_le(sid, Hin))
        out = models.Out(c)
        try:
            evs = h2h.deliver(c, [f])
        except h2.exceptions.ProtocolError as e:
            _error_class(c, out, [], e, cb, too_low, 'client-headers', sid)
            return
        if out.nbytes():
            _error_class(c, out, evs, None, cb, too_low, 'client-headers', sid)
            return
        note('accepted')
        check(False, 'client-accepts-headers-on-untracked-stream', (sid, Hin, Hout))
    return h


def h_recv_push_id():
    """client receives PUSH_PROMISE(promised id) on its open stream 1"""
    def h():
        with h2h.native():
            c, s = _server_with_parent()
            s.push_stream(1, 2, h2h.REQ)
            wire = s.data_to_send()
        Hin = _sym_parity('highest_in', 0, 4)
        _set_marks(c, 1, Hin)
        pid2 = sym_int('promised_half', 1, 2 ** 30 - 1, default=3)
        pid = 2 * pid2           # hyperframe contract: even, non-zero
        cb = _install_closed(c, pid, others=(Hin, 1))
        symmap.linear_streams(c)
        f = hf.PushPromiseFrame(1)
        f.flags.add('END_HEADERS')
        f.promised_stream_id = pid
        with h2h.native():
            f.data = models.parse_frames(wire)[0].data
        ok = s_lt(Hin, pid)
        out = models.Out(c)
        try:
            evs = h2h.deliver(c, [f])
        except h2.exceptions.ProtocolError as e:
            check(s_not(ok), 'valid-promised-id-refused', (pid, Hin))
            _error_class(c, out, [], e, cb, s_le(pid, Hin), 'push', pid)
            return
        if out.nbytes():
            check(s_not(ok), 'valid-promised-id-refused', (pid, Hin))
            _error_class(c, out, [], None, cb, s_le(pid, Hin), 'push', pid)
            return
        note('promised')
        check(ok, 'invalid-promised-id-accepted', (pid, Hin))
        check(c.highest_inbound_stream_id == pid, 'mark-not-advanced', None)
        check(len(evs) == 1 and isinstance(evs[0], h2.events.PushedStreamReceived) and
              evs[0].pushed_stream_id == pid and evs[0].parent_stream_id == 1,
              'push-event', h2h.ev_names(evs))
    return h


def h_recv_push_refused():
    """a PUSH_PROMISE racing our reset of its parent is refused (RST_STREAM on the promised
    id) -- and the promised id is USED by that: the high-water mark advances, so a later
    promise may not reuse it or any lower id"""
    def h():
        with h2h.native():
            c, s = _server_with_parent()
            s.push_stream(1, 2, h2h.REQ)
            wire = s.data_to_send()
            c.reset_stream(1)
            c.data_to_send()
        Hin = _sym_parity('highest_in', 0, 4)
        _set_marks(c, 1, Hin)
        pid2 = sym_int('promised_half', 1, 2 ** 30 - 1, default=3)
        pid = 2 * pid2
        cb = _install_closed(c, pid, others=(Hin,))
        symmap.linear_streams(c)
        f = hf.PushPromiseFrame(1)
        f.flags.add('END_HEADERS')
        f.promised_stream_id = pid
        with h2h.native():
            f.data = models.parse_frames(wire)[0].data
        out = models.Out(c)
        stale = s_le(pid, Hin)
        try:
            evs = h2h.deliver(c, [f])
        except h2.exceptions.ProtocolError as e:
            note('conn-error')
            check(stale, 'racing-push-with-fresh-id-is-connection-error', (pid, Hin))
            # a promised id that is not idle is classified like any reuse of a stream id
            _error_class(c, out, [], e, cb, stale, 'stale-push', pid)
            check(c.highest_inbound_stream_id == Hin, 'mark-moved-by-stale-refused-push', None)
            return
        check(len(evs) == 0, 'refused-push-events', h2h.ev_names(evs))
        if s_lt(Hin, pid):
            note('refused')
            note('fresh')
            fr = out.frames()
            check(len(fr) == 1 and isinstance(fr[0], hf.RstStreamFrame) and
                  fr[0].stream_id == pid and fr[0].error_code == ErrorCodes.REFUSED_STREAM,
                  'refused-push-rst-frame', [h2h.frame_sig(x) for x in fr])
            check(c.highest_inbound_stream_id == pid, 'mark-not-advanced-by-refused-push',
                  (c.highest_inbound_stream_id, pid))
        else:
            note('stale')
            _error_class(c, out, evs, None, cb, stale, 'stale-push', pid)
            check(c.highest_inbound_stream_id == Hin, 'mark-moved-by-stale-refused-push', None)
    return h


def h_priority_any_id(client):
    """PRIORITY on any id neither opens nor implicitly closes streams: marks, streams and
    the closed-stream memory are untouched (symbolic marks + symbolic id)"""
    def h():
        with h2h.native():
            c, s = _server_with_parent()
            me = c if client else s
        Hin = _sym_parity('highest_in', 0 if client else 1, 4 if client else 5)
        Hout = _sym_parity('highest_out', 1 if client else 0, 5 if client else 4)
        assume_z(s_le(1, Hout) if client else s_le(1, Hin))
        _set_marks(me, Hout, Hin)
        sid = sym_int('sid', 1, INT31, default=9)
        dep = sym_int('depends_on', 0, INT31, default=0)
        assume_z(s_not(s_eq(dep, sid)))
        f = hf.PriorityFrame(sid)
        f.depends_on = dep
        f.stream_weight = sym_int('w', 0, 255, default=15)
        before = fingerprint.snapshot(me)
        nclosed = len(me._closed_streams)
        out = models.Out(me)
        evs = h2h.deliver(me, [f])
        note('priority')
        same, diffs = fingerprint.same(before, fingerprint.snapshot(me))
        check(same, 'priority-changes-state', diffs)
        check(len(me._closed_streams) == nclosed and len(me.streams) == 1,
              'priority-allocates', None)
        check(out.nbytes() == 0, 'priority-emits', None)
        check(h2h.ev_names(evs) == ['PriorityUpdated'], 'priority-events', h2h.ev_names(evs))
    return h


def shards(tier, seed):
    out = []
    for client in (True, False):
        out.append(Shard('next_id/%s' % ('client' if client else 'server'), h_next_id(client),
                         expect=['allocated', 'exhausted']))
        out.append(Shard('priority_any_id/%s' % ('client' if client else 'server'),
                         h_priority_any_id(client), expect=['priority']))
    out.append(Shard('send_headers_id/client', h_send_headers_id(),
                     expect=['opened', 'too-low', 'refused']))
    out.append(Shard('push_stream_id/server', h_push_id(), expect=['pushed', 'refused']))
    out.append(Shard('recv_headers_id/server', h_recv_headers_id(), budget=90,
                     expect=['opened', 'stream-error', 'stream-closed', 'protocol-error']))
    out.append(Shard('recv_headers_id/client', h_recv_headers_id_client(), budget=90,
                     expect=['stream-error', 'stream-closed', 'protocol-error']))
    out.append(Shard('recv_push_promise_refused/client', h_recv_push_refused(), budget=90,
                     expect=['refused', 'fresh']))
    out.append(Shard('recv_push_promise_id/client', h_recv_push_id(), budget=90,
                     expect=['promised', 'stream-error', 'stream-closed', 'protocol-error']))
    return out
