"""C19 -- a closed connection stays quiet."""
from hyperframe import frame as hf

import h2.exceptions

from engine.core import check, note, sym_int, assume_z, s_le, INT31
from engine import h2h, ops, models
from engine.runner import Shard
from props import fsm_common as F

MODELS = ['fmt_stub', 'HfSerialize', 'FrameFeed', 'LenBytes']
BOUNDS = {
    'histories': 'every catalogue entry of the one-stream slice up to depth 2 (quick) / 3 '
                 '(thorough) followed by one of the closing routes (close_connection, received '
                 'GOAWAY, a connection error), optionally open_counts, then ONE more operation '
                 'from the full API + frame alphabet with symbolic numeric arguments; the '
                 'inbound window managers are symbolic for acknowledge_received_data',
}
OUTSIDE = ['more than two operations after the close (the closed state absorbs: its '
           'successors are closed states, checked by the closure clause)']
ASSUMPTIONS = ['"closed" is decided by the observer from observable traffic (GOAWAY sent or '
               'received, ProtocolError raised by receive_data)']

CLOSERS = {'sent-goaway': ('close',), 'recv-goaway': ('GOAWAY',), 'error': ('CONT', 1)}
EMITTING = ('send_headers', 'send_data', 'end_stream', 'reset', 'push', 'wu', 'altsvc',
            'prioritize', 'ping', 'settings')


def judge(pre, op, out, ctx):
    assert pre.conn_closed is not None
    note(out.cls[0])
    if out.cls[0] == 'crash':
        check(False, 'crash:%s:%s' % (out.cls[1], op[0]), F.op_label(op))
        return
    for f in out.frames:
        check(isinstance(f, hf.GoAwayFrame), 'frame-after-close:%s:%s' % (type(f).__name__,
                                                                         op[0]),
              F.op_label(op))
    if op[0] == 'prioritize' and not ctx.client:
        # never allowed on servers, closed or not (RFC1122Error)
        check(out.cls[0] == 'refused', 'call-accepted-after-close:prioritize', out.cls)
    elif op[0] in EMITTING:
        check(out.cls[0] == 'refused' and isinstance(out.exc, h2.exceptions.ProtocolError),
              'call-accepted-after-close:' + op[0], (F.op_label(op), out.cls))
    check(ctx.obs.conn_closed is not None, 'connection-reopened', None)


def entry_histories(client, tier):
    cat = F.get_catalogue(client, 3 if tier == 'thorough' else 2)
    out = []
    seen = set()
    for hist, depth in cat[0]:
        if any(o[0] in ('close', 'GOAWAY') for o in hist):
            continue
        for route, closer in CLOSERS.items():
            for tail in ([], [('open_counts',)]):
                h = list(hist) + [closer] + tail
                if repr(h) in seen:
                    continue
                seen.add(repr(h))
                out.append((h, depth + 1 + len(tail)))
    return out


def make(client, history):
    alpha = F.alphabet(client, sids=(1, 3)) + [('push', 1, 2), ('PP', 1, 2)]

    def h():
        with h2h.native():
            ctx = ops.replay(client, history)
            pre = ctx.obs.clone()
        if pre.conn_closed is None:
            note('not-closed')        # the closing route did not apply in this state
            return
        # arbitrary window-manager content, so that acknowledge_received_data has
        # something to credit
        A = h2h.Adapter
        cur = sym_int('conn_cur', 0, INT31, default=100)
        mx = sym_int('conn_max', 0, INT31, default=65535)
        p = sym_int('conn_P', 0, INT31, default=30000)
        assume_z(s_le(cur, mx))
        A.set_wm(A.conn_wm(ctx.me), cur, mx, p)
        if 1 in ctx.me.streams:
            A.set_wm(A.stream_wm(ctx.me, 1), cur, mx, p)
        op = F.sym_choice('op', alpha)
        out = ops.run_op(ctx, op, symbolic=True)
        judge(pre, op, out, ctx)
    return h


def h_goaway_discards(client, pending_ops, closed_first=False):
    """receiving GOAWAY discards bytes not yet handed to the application -- also when the
    connection had been closed already (our own GOAWAY still waiting in the buffer)"""
    def h():
        with h2h.native():
            ctx = ops.Ctx(client)
            if client:
                ops.run_op(ctx, ('send_headers', 1, 'req', False))
            else:
                ops.run_op(ctx, ('HEADERS', 1, 'req', False))
                ops.run_op(ctx, ('send_headers', 1, 'resp', False))
            ctx.me.data_to_send()
        for op in pending_ops:
            ops.run_op(ctx, op, symbolic=True)      # not drained: pending output
        if closed_first:
            how = F.sym_choice('closed_by', ['close_connection', 'connection-error',
                                             'goaway-then-close_connection'])
            if how == 'close_connection':
                ops.run_op(ctx, ('close',), symbolic=True)
            elif how == 'connection-error':
                o = ops.run_op(ctx, ('CONT', 1), symbolic=True)
                check(o.cls[0] == 'conn_error', 'harness:no-connection-error', o.cls)
            else:
                ops.run_op(ctx, ('GOAWAY',), symbolic=True)
                ops.run_op(ctx, ('close',), symbolic=True)
        pending = len(ctx.me._data_to_send)
        check(pending > 0, 'harness:nothing-pending', None)
        out = ops.run_op(ctx, ('GOAWAY',), symbolic=True)
        note('goaway')
        check(out.cls == ('accept',), 'goaway-not-accepted', out.cls)
        left = ctx.me.data_to_send()
        check(len(left) == 0, 'pending-output-survives-goaway', len(left))
        check(any(type(e).__name__ == 'ConnectionTerminated' for e in out.events),
              'no-connection-terminated-event', None)
    return h


def shards(tier, seed):
    out = []
    for client in (True, False):
        role = 'client' if client else 'server'
        hs = entry_histories(client, tier)
        if tier == 'quick':
            import random
            rng = random.Random(seed)
            shallow = [e for e in hs if e[1] <= 2]
            deep = [e for e in hs if e[1] > 2]
            rng.shuffle(deep)
            hs = shallow + deep[:40]
        for hist, depth in hs:
            out.append(Shard('closed/%s/%s' % (role, F.hist_name(hist)), make(client, hist),
                             budget=120, twin=False,
                             params={'history': [list(o) for o in hist]}))
        out.append(Shard('goaway_discards/%s/ping' % role,
                         h_goaway_discards(client, [('ping',)]), expect=['goaway']))
        out.append(Shard('goaway_discards/%s/closed-before' % role,
                         h_goaway_discards(client, [('ping',)], True), expect=['goaway']))
        out.append(Shard('goaway_discards/%s/data+ping' % role,
                         h_goaway_discards(client, [('send_data', 1, False), ('ping',),
                                                    ('wu', 0)]), expect=['goaway']))
    return out
