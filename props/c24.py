"""C24 -- alternative-service advertisements follow the RFC 7838 rules."""
from hyperframe import frame as hf

import h2.events
import h2.exceptions

from engine.core import check, note, sym_choice, CTX
from engine import h2h, ops, models
from engine.models import sym_bytes
from engine.observer import OPEN, HCR, HCL, CLOSED, IDLE, RES_REMOTE, RES_LOCAL
from engine.runner import Shard
from props import fsm_common as F

MODELS = ['fmt_stub', 'HfSerialize', 'FrameFeed', 'LenBytes']
BOUNDS = {
    'histories': 'catalogue entries of every slice (stream in every reachable state, incl. '
                 'pushed and upgraded streams), then one advertise_alternative_service call or '
                 'one received ALTSVC frame',
    'arguments': 'stream id in {None/0, 1, 2, 3, 5}; origin None, empty or non-empty; field '
                 'value of symbolic length 0..64 (bytes) or a str (type error); both origin and '
                 'stream id given',
}
OUTSIDE = ['field-value syntax (opaque to h2)']
ASSUMPTIONS = ['the :authority a client remembers is the one of the request it sent on that '
               'stream (concrete b"example.com" in the witness histories)']


def _same(a, b):
    return a is b or (CTX.mode != 'sym' and a == b)


def make_api(client, history, upgrade):
    def h():
        with h2h.native():
            ctx = ops.replay(client, history, upgrade=upgrade)
            pre = ctx.obs.clone()
        sid = sym_choice('stream_id', [None, 0, 1, 2, 3, 5])
        origin = sym_choice('origin', [None, b'', b'example.org'])
        field = sym_bytes('flen', 0, 64, default=9)
        bad_type = sym_choice('field_is_str', [False, True])
        if bad_type:
            field = u'h2=":443"'
        out = models.Out(ctx.me)
        exc = None
        try:
            ctx.me.advertise_alternative_service(field, origin=origin, stream_id=sid)
        except Exception as e:     # noqa
            exc = e
        frames = out.frames()
        note('raised' if exc is not None else 'sent')
        if exc is not None:
            check(isinstance(exc, (h2.exceptions.H2Error, ValueError, TypeError)),
                  'crash:' + type(exc).__name__, None)
            check(len(frames) == 0, 'refused-advertisement-emits', None)
        both = origin is not None and sid is not None
        if bad_type or both:
            check(isinstance(exc, (ValueError, TypeError)), 'bad-arguments-accepted',
                  (bad_type, origin, sid))
            return
        if client or pre.conn_closed is not None:
            check(exc is not None, 'client-or-closed-connection-advertises', None)
            return
        if origin is not None:
            # explicit origin: allowed any time on an open connection (stream 0)
            check(exc is None, 'origin-advertisement-refused', repr(exc)[:80])
            if exc is None:
                check(len(frames) == 1 and isinstance(frames[0], hf.AltSvcFrame) and
                      frames[0].stream_id == 0 and frames[0].origin == origin and
                      _same(frames[0].field, field), 'origin-frame',
                      [h2h.frame_sig(f) for f in frames])
            return
        # stream advertisement
        if sid is None or sid == 0:
            check(exc is not None, 'advertisement-without-origin-or-stream-accepted', None)
            return
        v = pre.s(sid)
        if v.st == HCL and not v.hs:
            note('unspecified')     # only reachable through known finding F-C08-1
            return
        allowed = v.st in (OPEN, HCR, RES_LOCAL) and v.requester is False and not v.hs
        if allowed:
            check(exc is None, 'stream-advertisement-refused', (sid, v.key(), repr(exc)[:80]))
            if exc is None:
                check(len(frames) == 1 and isinstance(frames[0], hf.AltSvcFrame) and
                      frames[0].stream_id == sid and frames[0].origin == b'' and
                      _same(frames[0].field, field), 'stream-frame', None)
        else:
            check(exc is not None, 'stream-advertisement-outside-window-accepted',
                  (sid, v.key()))
    return h


def make_recv(client, history, upgrade):
    def h():
        with h2h.native():
            ctx = ops.replay(client, history, upgrade=upgrade)
            pre = ctx.obs.clone()
        sid = sym_choice('stream_id', [0, 1, 2, 3, 5])
        origin = sym_choice('origin', [b'', b'example.org'])
        f = hf.AltSvcFrame(sid)
        f.origin = origin
        f.field = sym_bytes('flen', 0, 64, default=9)
        out = models.Out(ctx.me)
        try:
            evs = h2h.deliver(ctx.me, [f])
        except h2.exceptions.ProtocolError as e:
            note('error')
            check(pre.conn_closed is not None, 'altsvc-frame-is-an-error', (sid, origin))
            return
        note('handled')
        check(out.nbytes() == 0, 'altsvc-frame-answered', None)
        av = [e for e in evs if isinstance(e, h2.events.AlternativeServiceAvailable)]
        check(len(av) == len(evs), 'altsvc-other-events', h2h.ev_names(evs))
        expect_event = False
        exp_origin = None
        if client:
            if sid == 0:
                expect_event = bool(origin)
                exp_origin = origin
            elif not origin:
                v = pre.s(sid)
                if v.st in (OPEN, HCL, RES_REMOTE) and v.requester and not v.hr:
                    expect_event = True
                    # the :authority of the request of THAT stream (a promised request
                    # names its own authority)
                    exp_origin = b'cdn.example.net' if v.pushed else b'example.com'
                    if upgrade and sid == 1:
                        exp_origin = None      # the request travelled over HTTP/1.1
        check((len(av) == 1) == expect_event, 'altsvc-event-%s' % (
            'missing' if expect_event else 'unexpected'), (sid, origin, pre.s(sid).key()
                                                           if sid else None))
        if av and expect_event:
            check(av[0].origin == exp_origin, 'altsvc-event-origin', (av[0].origin, exp_origin))
            check(av[0].field_value is f.field or av[0].field_value == f.field,
                  'altsvc-event-field', None)
    return h


def shards(tier, seed):
    out = []
    for client in (True, False):
        role = 'client' if client else 'server'
        seen = set()
        for sl in F.slices(tier, seed, client):
            for hist, depth in sl['entries']:
                ctx = ops.replay(client, hist, upgrade=sl['upgrade'])
                key = (sl['upgrade'], ctx.obs.key())
                if key in seen:
                    continue
                seen.add(key)
                name = ('upgrade:' if sl['upgrade'] else '') + F.hist_name(hist)
                out.append(Shard('advertise/%s/%s' % (role, name),
                                 make_api(client, list(hist), sl['upgrade']), twin=False,
                                 params={'history': [list(o) for o in hist]}))
                out.append(Shard('receive/%s/%s' % (role, name),
                                 make_recv(client, list(hist), sl['upgrade']), twin=False,
                                 params={'history': [list(o) for o in hist]}))
    return out
