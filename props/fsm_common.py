"""Shared machinery of the state-machine properties: alphabets, catalogue construction,
one shard per catalogue entry (the operation is a solver choice inside the shard)."""
import hashlib
import random

from engine import ops, catalogue, h2h, core, fingerprint
from engine.core import sym_choice, note, check
from engine.runner import Shard

_CACHE = {}


def alphabet(client, sids=(1,), push=False, extra=()):
    A = []
    for sid in sids:
        for kind in ('req', 'resp', 'info', 'trailers'):
            for end in (False, True):
                A.append(('send_headers', sid, kind, end))
                A.append(('HEADERS', sid, kind, end))
        for end in (False, True):
            A.append(('send_data', sid, end))
            A.append(('DATA', sid, end))
        A += [('end_stream', sid), ('reset', sid), ('RST', sid), ('wu', sid), ('WU', sid),
              ('WU', sid, 'over'), ('CONT', sid), ('ALTSVC', sid, False), ('altsvc', sid, False),
              ('ack', sid),
              ('PRIORITY', sid), ('prioritize', sid), ('lfcw', sid), ('rfcw', sid)]
    if push:
        A += [('push', 1, 2), ('PP', 1, 2), ('push', 2, 4), ('PP', 2, 4)]
    A += [('open_counts',), ('close',), ('GOAWAY',), ('PING', False), ('PING', True), ('ping',),
          ('wu', 0), ('WU', 0), ('WU', 0, 'over'), ('settings',), ('SETTINGS', False),
          ('altsvc', None, True),
          ('ALTSVC', 0, True), ('UNKNOWN', 0), ('UNKNOWN', 1)]
    A += list(extra)
    return A


def build_alphabet(client):
    """operations used to BUILD the catalogue: the whole one-stream alphabet except the
    SETTINGS operations (their pending queue is unbounded; C11 covers them), so that an
    operation which is a no-op today but state-changing after a code change still gets its
    successors explored"""
    return [o for o in alphabet(client) if o[0] not in ('settings', 'SETTINGS')]


def build_alphabet_push(client):
    return [o for o in alphabet(client, sids=(1, 2), push=True)
            if o[0] not in ('settings', 'SETTINGS')]


def build_alphabet_two(client):
    A = []
    for sid in (1, 3):
        A += [('send_headers', sid, 'req', False), ('send_headers', sid, 'req', True),
              ('HEADERS', sid, 'req', False), ('HEADERS', sid, 'req', True),
              ('HEADERS', sid, 'resp', True), ('send_headers', sid, 'resp', True),
              ('reset', sid), ('RST', sid)]
    A += [('open_counts',)]
    return A


def get_catalogue(client, depth, push=False, upgrade=False, cfg=None, limit=4000, two=False):
    key = (client, depth, push, upgrade, repr(cfg), limit, two)
    if key not in _CACHE:
        A = build_alphabet_push(client) if push else build_alphabet(client)
        if two:
            A = build_alphabet_two(client)
        _CACHE[key] = catalogue.build(client, A, depth, upgrade=upgrade, cfg=cfg, limit=limit)
    return _CACHE[key]


def hist_name(history):
    if not history:
        return 'init'
    h = hashlib.sha1(repr(history).encode()).hexdigest()[:6]
    last = history[-1]
    return '%d:%s:%s' % (len(history), '.'.join(str(x) for x in last), h)


def op_label(op):
    return '.'.join(str(x) for x in op)


def select_entries(entries, tier, seed, quick_depth=2, quick_sample=12, thorough_cap=350):
    """quick: every entry up to quick_depth plus a seeded sample of deeper ones;
    thorough: everything, capped (shallow entries first, then a seeded sample)"""
    rng = random.Random(seed)
    if tier == 'thorough':
        if len(entries) <= thorough_cap:
            return entries
        shallow = [e for e in entries if e[1] <= quick_depth]
        deep = [e for e in entries if e[1] > quick_depth]
        rng.shuffle(deep)
        return shallow + deep[:max(0, thorough_cap - len(shallow))]
    shallow = [e for e in entries if e[1] <= quick_depth]
    deep = [e for e in entries if e[1] > quick_depth]
    rng.shuffle(deep)
    return shallow + deep[:quick_sample]


def entry_shards(tag, client, entries, alpha, judge, upgrade=False, cfg=None, budget=120.0,
                 check_refused=False, cat=None, build_ops=None, pre_hook=None):
    """one shard per catalogue entry; `cat` = (entries, closed, keys) enables the closure
    check: the successor of every non-refused step by a catalogue-building operation must
    be a state of the catalogue (valid when the catalogue is closed, or for entries below
    its depth bound)"""
    out = []
    role = 'client' if client else 'server'
    keys = closed = None
    max_depth = 0
    if cat is not None:
        all_entries, closed, keys = cat
        max_depth = max(d for _h, d in all_entries)
        build_ops = set(build_ops or [])
    for history, depth in entries:
        closure_here = keys is not None and (closed or depth < max_depth)

        def mk(history=history, closure_here=closure_here):
            def h():
                with h2h.native():
                    ctx = ops.replay(client, history, cfg=cfg, upgrade=upgrade)
                    pre = ctx.obs.clone()
                    ctx.pre_info = pre_hook(ctx) if pre_hook else None
                op = sym_choice('op', alpha)
                before = fingerprint.snapshot(ctx.me) if check_refused else None
                out_ = ops.run_op(ctx, op, symbolic=True)
                judge(pre, op, out_, ctx)
                if check_refused and out_.cls[0] == 'refused':
                    same, diffs = fingerprint.same(before, fingerprint.snapshot(ctx.me))
                    check(same, 'refused-call-changes-state:' + op[0],
                          (op_label(op), [d.split('.', 1)[-1] for d in diffs][:6]))
                if closure_here and op in build_ops and out_.cls[0] not in ('refused', 'crash'):
                    with h2h.native():
                        ctx.me.data_to_send()
                        k = catalogue.state_key(ctx)
                        inside = k in keys
                    check(inside, 'successor-outside-catalogue:' + op[0], op_label(op))
            return h
        out.append(Shard('%s/%s/%s' % (tag, role, hist_name(history)), mk(), budget=budget,
                         params={'history': [list(o) for o in history], 'depth': depth,
                                 'closure_checked': bool(closure_here)},
                         twin=False))
    return out


def slices(tier, seed, client, novalidate=False):
    """the standard catalogue slices: (tag, selected entries, catalogue-or-None, stream ids
    of the step alphabet, push?, upgrade?, cfg, build ops)"""
    out = []
    thorough = tier == 'thorough'
    cat = get_catalogue(client, 9 if thorough else 3)
    sel = select_entries(cat[0], tier, seed, quick_depth=2, quick_sample=10,
                         thorough_cap=10 ** 6)
    out.append(dict(tag='one', entries=sel, cat=cat, sids=(1,), push=False, upgrade=False,
                    cfg=None, build_ops=build_alphabet(client)))
    pcat = get_catalogue(client, 4 if thorough else 3, push=True)
    pentries = [e for e in pcat[0] if any(o[0] in ('push', 'PP') for o in e[0])]
    psel = select_entries(pentries, tier, seed, quick_depth=3, quick_sample=0,
                          thorough_cap=300)
    out.append(dict(tag='push', entries=psel, cat=pcat, sids=(1, 2), push=True, upgrade=False,
                    cfg=None, build_ops=build_alphabet_push(client)))
    tcat = get_catalogue(client, 3 if thorough else 2, two=True)
    tsel = select_entries(tcat[0], tier, seed, quick_depth=2, quick_sample=6, thorough_cap=150)
    out.append(dict(tag='two', entries=tsel, cat=None, sids=(1, 2, 3, 5), push=False,
                    upgrade=False, cfg=None, build_ops=None))
    ucat = get_catalogue(client, 4 if thorough else 2, upgrade=True)
    usel = select_entries(ucat[0], tier, seed, quick_depth=1, quick_sample=8, thorough_cap=150)
    out.append(dict(tag='upgrade', entries=usel, cat=ucat, sids=(1,), push=False, upgrade=True,
                    cfg=None, build_ops=build_alphabet(client)))
    if novalidate:
        cfg = {'validate_outbound_headers': False, 'validate_inbound_headers': False}
        ncat = get_catalogue(client, 4 if thorough else 2, cfg=cfg)
        nsel = select_entries(ncat[0], tier, seed, quick_depth=2, quick_sample=8,
                              thorough_cap=150)
        out.append(dict(tag='novalidate', entries=nsel, cat=ncat, sids=(1,), push=False,
                        upgrade=False, cfg=cfg, build_ops=build_alphabet(client)))
    return out


def standard_shards(tier, seed, judge, alpha_filter=None, novalidate=False, extra_ops=None,
                    check_refused=False, closure=True, pre_hook=None):
    out = []
    for client in (True, False):
        for sl in slices(tier, seed, client, novalidate=novalidate):
            alpha = alphabet(client, sids=sl['sids'], push=sl['push'])
            if sl['tag'] in ('one', 'upgrade', 'novalidate'):
                # a first push from every one-stream state (step only, not catalogue-building)
                alpha = alpha + [('push', 1, 2), ('PP', 1, 2)]
            if extra_ops:
                alpha = alpha + [o for o in extra_ops(client, sl['sids']) if o not in alpha]
            if alpha_filter:
                alpha = [o for o in alpha if alpha_filter(o)]
            out += entry_shards(sl['tag'], client, sl['entries'], alpha, judge,
                                upgrade=sl['upgrade'], cfg=sl['cfg'],
                                cat=sl['cat'] if closure else None,
                                build_ops=sl['build_ops'], check_refused=check_refused,
                                pre_hook=pre_hook)
    return out


def catalogue_summary():
    """what the catalogues of this run looked like (for the evidence file)"""
    out = []
    for key, (entries, closed, keys) in _CACHE.items():
        client, depth, push, upgrade, cfg, limit, two = key
        out.append({'role': 'client' if client else 'server',
                    'slice': 'push' if push else 'two' if two else 'upgrade' if upgrade else 'one',
                    'config': cfg, 'depth_bound': depth, 'entries': len(entries),
                    'max_depth_reached': max(d for _h, d in entries),
                    'closed': bool(closed)})
    return out
