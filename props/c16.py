"""C16 -- Content-Length is enforced as RFC 7540 section 8.1.2.6 requires."""
from hyperframe import frame as hf

import h2.events
import h2.exceptions
from h2.errors import ErrorCodes

from engine.core import (sym_int, sym_bool, sym_choice, check, note, assume_z, s_and, s_or,
                         s_not, s_eq, s_le, s_lt, s_ite, INT31, CTX, HarnessError)
from engine import h2h, models
from engine.models import sym_bytes
from engine.runner import Shard

MODELS = ['fmt_stub', 'HfSerialize', 'FrameFeed', 'LenBytes']
BOUNDS = {
    'content-length N / bytes received so far A': '0..2^40 (symbolic; injected after a native '
                                                  'HEADERS with a concrete content-length, so '
                                                  'the decimal parsing itself is exercised on '
                                                  'the concrete values 0, 1, 5, 10^10 only)',
    'DATA payload length / padding': '0..2^24-300 / none or 0..255 (symbolic)',
    'number of DATA frames': 'unbounded by induction on (N, A): one symbolic DATA step or one '
                             'trailer step from an arbitrary (N, A)',
    'END_STREAM placement': 'on HEADERS, on DATA (symbolic flag), on trailers',
    'no-content cases': 'responses 204 / 304 / to HEAD / to HEAD-with-request-trailers / to HEAD '
                        'followed by a refused header block / after 1xx, content-length absent, '
                        '0 or 5; header_encoding None or utf-8',
}
OUTSIDE = ['non-canonical content-length spellings']
ASSUMPTIONS = ['representation invariant injected: expected = N >= 0 (or None), actual = A with '
               '0 <= A <= N (a stream that exceeded N has already been refused)']

BIG = 2 ** 24 - 1


def _need(obj, *names):
    for n in names:
        if not hasattr(obj, n):
            raise HarnessError("adapter: %s has no attribute %s" % (type(obj).__name__, n))


def _cl(n):
    return (b'content-length', str(n).encode())


def _witness(client, req, resp_headers=None, cl=7):
    """a stream on which `me` is receiving a message with a content-length"""
    c, s = h2h.pair()
    if client:
        c.send_headers(1, req)
        h2h.pump(c, s)
        s.send_headers(1, (resp_headers or h2h.RESP) + ([_cl(cl)] if cl is not None else []))
        h2h.pump(c, s)
        me = c
    else:
        c.send_headers(1, req + ([_cl(cl)] if cl is not None else []))
        h2h.pump(c, s)
        me = s
    _open_windows(me)
    return me


def _open_windows(me):
    """flow control is not the subject here (C04): make both inbound windows huge"""
    me.max_inbound_frame_size = BIG
    A = h2h.Adapter
    A.set_wm(A.conn_wm(me), INT31, INT31, 0)
    A.set_wm(A.stream_wm(me, 1), INT31, INT31, 0)


def _inject(me, with_cl=True):
    st = me.streams[1]
    _need(st, '_expected_content_length', '_actual_content_length')
    if with_cl:
        N = sym_int('N', 0, 2 ** 40, default=7)
        A = sym_int('A', 0, 2 ** 40, default=0)
        assume_z(s_le(A, N))
        st._expected_content_length = N
        st._actual_content_length = A
        return N, A
    return None, None


def _refused(out, exc, tag):
    check(exc.error_code == ErrorCodes.PROTOCOL_ERROR, tag + '-code', exc.error_code)
    fr = out.frames()
    check(len(fr) == 1 and isinstance(fr[0], hf.GoAwayFrame) and
          fr[0].error_code == ErrorCodes.PROTOCOL_ERROR, tag + '-goaway', None)


def _data_frame(padded, force_end=False):
    data = sym_bytes('n', 0, BIG - 300, default=7)
    f = hf.DataFrame(1)
    f.data = data
    if padded:
        f.flags.add('PADDED')
        f.pad_length = sym_int('pad', 0, 255, default=4)
    end = True if force_end else sym_bool('end')
    if end:
        f.flags.add('END_STREAM')
    return f, len(data), end


def h_data_step(client, padded):
    def h():
        with h2h.native():
            me = _witness(client, h2h.REQ_POST)
        N, A = _inject(me)
        f, n, end = _data_frame(padded)
        out = models.Out(me)
        bad = s_or(s_lt(N, A + n), s_and(end, s_not(s_eq(A + n, N))))
        try:
            evs = h2h.deliver(me, [f])
        except h2.exceptions.ProtocolError as e:
            note('refused')
            check(bad, 'matching-body-refused', (N, A, n, end))
            _refused(out, e, 'mismatch')
        else:
            note('accepted')
            check(s_not(bad), 'mismatching-body-accepted', (N, A, n, end))
            if not end:
                check(me.streams[1]._actual_content_length == A + n, 'actual-not-tracked',
                      None)
    return h


def h_trailers_step(client):
    def h():
        with h2h.native():
            me = _witness(client, h2h.REQ_POST)
            e2 = __import__('hpack').Encoder()
            block = e2.encode(h2h.TRAILERS)
        N, A = _inject(me)
        f = hf.HeadersFrame(1)
        f.data = block
        f.flags.add('END_HEADERS')
        f.flags.add('END_STREAM')
        out = models.Out(me)
        try:
            evs = h2h.deliver(me, [f])
        except h2.exceptions.ProtocolError as e:
            note('refused')
            check(s_not(s_eq(A, N)), 'matching-body-refused-at-trailers', (N, A))
            _refused(out, e, 'mismatch')
        else:
            note('accepted')
            check(s_eq(A, N), 'short-body-accepted-at-trailers', (N, A))
    return h


CHOICES = [None, 0, 1, 5, 10 ** 10]


def h_headers_end_stream(client):
    """message consisting of HEADERS+END_STREAM only"""
    def h():
        cl = sym_choice('content_length', CHOICES, default=5)
        with h2h.native():
            c, s = h2h.pair()
            if client:
                c.send_headers(1, h2h.REQ)
                h2h.pump(c, s)
                s.send_headers(1, h2h.RESP + ([_cl(cl)] if cl is not None else []),
                               end_stream=True)
                wire = s.data_to_send()
                me = c
            else:
                c.send_headers(1, h2h.REQ_POST + ([_cl(cl)] if cl is not None else []),
                               end_stream=True)
                wire = c.data_to_send()
                me = s
        out = models.Out(me)
        try:
            me.receive_data(wire)
        except h2.exceptions.ProtocolError as e:
            note('refused')
            check(cl is not None and cl != 0, 'empty-message-refused', cl)
            _refused(out, e, 'mismatch')
        else:
            note('accepted')
            check(cl is None or cl == 0, 'content-length-without-body-accepted', cl)
    return h


def h_initialise(client, enc):
    """the expected length is taken from the content-length field of the received message
    under every header_encoding configuration; a body of exactly that length is accepted, any
    other refused"""
    cfg = {'header_encoding': enc}

    def h():
        value = sym_choice('content_length', [0, 1, 5, 10 ** 10], default=5)
        with h2h.native():
            c, s = h2h.pair(ccfg=cfg, scfg=cfg)
            if client:
                c.send_headers(1, h2h.REQ)
                h2h.pump(c, s)
                s.send_headers(1, h2h.RESP + [_cl(value)])
                h2h.pump(c, s)
                me = c
            else:
                c.send_headers(1, h2h.REQ_POST + [_cl(value)])
                h2h.pump(c, s)
                me = s
        _open_windows(me)
        st = me.streams[1]
        _need(st, '_expected_content_length', '_actual_content_length')
        check(st._expected_content_length == value, 'expected-length-not-initialised',
              (st._expected_content_length, value))
        f, n, end = _data_frame(False, force_end=True)
        try:
            h2h.deliver(me, [f])
        except h2.exceptions.ProtocolError:
            note('refused')
            check(s_not(s_eq(n, value)), 'matching-body-refused', (n, value))
        else:
            note('accepted')
            check(s_eq(n, value), 'mismatching-body-accepted', (n, value))
    return h


def h_no_content(kind, enc=None):
    """responses defined to have no content: refused only if DATA payload arrives"""
    cfg = {'header_encoding': enc}

    def h():
        cl = sym_choice('content_length', [None, 0, 5], default=5)
        with h2h.native():
            c, s = h2h.pair(ccfg=cfg, scfg=cfg)
            req = h2h.REQ_HEAD if kind.startswith('head') else h2h.REQ
            if kind == 'head+trailers':
                c.send_headers(1, req)
                c.send_headers(1, h2h.TRAILERS, end_stream=True)
            elif kind == 'head+refused-block':
                # a block the library refuses (request pseudo-headers in trailer position,
                # naming another method) contributes nothing: the request stays a HEAD
                c.send_headers(1, req)
                try:
                    c.send_headers(1, h2h.REQ, end_stream=True)
                except h2.exceptions.ProtocolError:
                    pass
                c.end_stream(1)
            else:
                c.send_headers(1, req, end_stream=True)
            h2h.pump(c, s)
            status = {'204': b'204', '304': b'304'}.get(kind, b'200')
            hdrs = [(b':status', status)] + ([_cl(cl)] if cl is not None else [])
            if kind == '1xx':
                s.send_headers(1, [(b':status', b'103')] + ([_cl(cl)] if cl is not None else []))
                hdrs = [(b':status', b'200')]
            s.send_headers(1, hdrs)
            h2h.pump(c, s)
        _open_windows(c)
        f, n, end = _data_frame(True, force_end=True)
        out = models.Out(c)
        try:
            h2h.deliver(c, [f])
        except h2.exceptions.ProtocolError as e:
            note('refused')
            if kind == '1xx':
                check(False, 'body-after-1xx-refused', (cl, n))
            else:
                check(s_lt(0, n), 'no-content-response-refused-without-payload', (kind, cl, n))
        else:
            note('accepted')
            if kind != '1xx':
                check(s_eq(n, 0), 'no-content-response-with-payload-accepted', (kind, cl, n))
    return h


def h_absent(client):
    def h():
        with h2h.native():
            me = _witness(client, h2h.REQ_POST, cl=None)
        f, n, end = _data_frame(True)
        try:
            h2h.deliver(me, [f])
        except h2.exceptions.ProtocolError:
            check(False, 'body-refused-without-content-length', n)
        note('accepted')
    return h


def shards(tier, seed):
    out = []
    for client in (True, False):
        r = 'client' if client else 'server'
        for padded in (False, True):
            out.append(Shard('data_step/%s/%s' % (r, 'padded' if padded else 'plain'),
                             h_data_step(client, padded), expect=['accepted', 'refused']))
        out.append(Shard('trailers_step/%s' % r, h_trailers_step(client),
                         expect=['accepted', 'refused']))
        out.append(Shard('headers_end_stream/%s' % r, h_headers_end_stream(client),
                         expect=['accepted']))
        out.append(Shard('no_content_length/%s' % r, h_absent(client), expect=['accepted']))
    for kind in ('head', 'head+trailers', 'head+refused-block', '204', '304', '1xx'):
        out.append(Shard('no_content_response/%s' % kind, h_no_content(kind)))
    for kind in ('head', '204', '304'):
        out.append(Shard('no_content_response/%s/enc=utf-8' % kind, h_no_content(kind, 'utf-8')))
    for client in (True, False):
        for enc in (None, 'utf-8'):
            out.append(Shard('initialise/%s/enc=%s' % ('client' if client else 'server', enc),
                             h_initialise(client, enc), expect=['accepted', 'refused']))
    return out
