"""C27 -- peer-controlled retained state stays bounded."""
from hyperframe import frame as hf
import hpack
import hpack.exceptions

import h2.events
import h2.exceptions
import h2.frame_buffer
from h2.errors import ErrorCodes
from h2.settings import SettingCodes
from h2.stream import StreamClosedBy
from h2.utilities import SizeLimitDict
from h2.connection import H2Connection

from engine.core import (sym_int, sym_bool, sym_choice, check, note, assume_z, s_and, s_or,
                         s_not, s_eq, s_le, s_lt, s_ite, INT31, INT32, CTX, HarnessError)
from engine import h2h, models, symmap, ops
from engine.models import sym_bytes
from engine.runner import Shard
from props.c09 import _sym_parity, _set_marks, _install_closed, CLOSED_BY

MODELS = ['fmt_stub', 'HfSerialize', 'FrameFeed', 'SymMap', 'HpackDec', 'LenBytes']
BOUNDS = {
    'non-opening frames': 'PRIORITY, WINDOW_UPDATE, RST_STREAM, unknown frame type on a '
                          'symbolic stream id 1..2^31-1 (idle, closed-and-forgotten with any '
                          'closed_by, or live), symbolic high-water marks',
    'closed-stream memory': 'SizeLimitDict with symbolic limit 0..8 and 0..6 pre-existing '
                            'entries, one insertion; connection uses MAX_CLOSED_STREAMS',
    'header block': 'pending block of n in {1,2,62,63,64,65,70} buffered frames + one more '
                    'frame (CONTINUATION with symbolic END_HEADERS, or a foreign frame)',
    'MAX_HEADER_LIST_SIZE': '0..2^32-1 (symbolic), acknowledged alone and together with '
                            'every other setting',
}
OUTSIDE = ['"hundreds of thousands of frames": replaced by one-step non-growth from an '
           'arbitrary state (induction)',
           'what the real HPACK decoder does with the limit (hpack contract; validated on '
           'concrete limits at every run)']
ASSUMPTIONS = ['conn.streams / conn._closed_streams are used through the mapping protocol only']


def v_hpack_limit():
    """the real decoder raises OversizedHeaderListError exactly above its limit"""
    e = hpack.Encoder()
    block = e.encode([(b'a' * 10, b'b' * 10)] * 3)
    size = 3 * (10 + 10 + 32)
    n = 0
    for lim in (size - 1, size, size + 1, 0):
        d = hpack.Decoder()
        d.max_header_list_size = lim
        try:
            d.decode(block, raw=True)
            raised = False
        except hpack.exceptions.OversizedHeaderListError:
            raised = True
        if raised != (size > lim):
            raise HarnessError("hpack limit contract: limit %d size %d raised=%s"
                               % (lim, size, raised))
        n += 1
    return n


VALIDATORS = [symmap.scan_streams_usage, v_hpack_limit]


def _witness(client):
    c, s = h2h.pair()
    c.send_headers(1, h2h.REQ_POST)
    h2h.pump(c, s)
    s.send_headers(1, h2h.RESP)
    h2h.pump(c, s)
    return c if client else s


def h_non_opening(client, kind):
    def h():
        with h2h.native():
            me = _witness(client)
        Hin = _sym_parity('highest_in', 0 if client else 1, 0 if client else 1)
        Hout = _sym_parity('highest_out', 1 if client else 0, 1 if client else 0)
        assume_z(s_le(1, Hout) if client else s_le(1, Hin))
        _set_marks(me, Hout, Hin)
        sid = sym_int('sid', 1, INT31, default=9)
        cb = _install_closed(me, sid, others=(Hin, Hout))
        symmap.linear_streams(me)
        if kind == 'PRIORITY':
            f = hf.PriorityFrame(sid)
            f.depends_on = sym_int('dep', 0, INT31, default=0)
            f.stream_weight = sym_int('w', 0, 255, default=15)
        elif kind == 'WINDOW_UPDATE':
            f = hf.WindowUpdateFrame(sid)
            f.window_increment = sym_int('inc', 1, INT31, default=1)
        elif kind == 'RST_STREAM':
            f = hf.RstStreamFrame(sid)
            f.error_code = sym_int('code', 0, INT32, default=8)
        else:
            f = hf.ExtensionFrame(sym_int('type', 11, 255, default=0xFA), sid)
            f.body = sym_bytes('blen', 0, 16384, default=3)
        n_streams = len(me.streams)
        n_closed = len(me._closed_streams)
        try:
            h2h.deliver(me, [f])
            note('handled')
        except h2.exceptions.ProtocolError:
            note('connection-error')
        check(len(me.streams) <= n_streams, 'stream-state-allocated',
              (kind, len(me.streams)))
        check(len(me._closed_streams) <= n_closed, 'closed-memory-grew', None)
        if CTX.mode == 'sym':
            check(len(me._closed_streams.inserted) == 0, 'closed-memory-insert', None)
        check(s_and(s_eq(me.highest_inbound_stream_id, Hin),
                    s_eq(me.highest_outbound_stream_id, Hout)), 'marks-moved', None)
    return h


def h_refused_push_allocates_nothing(collected):
    """PUSH_PROMISE frames racing our reset of their parent are refused one by one; however
    many arrive, the stream table does not grow (the refusals live in the capped closed-stream
    memory only)"""
    def h():
        with h2h.native():
            c, s = h2h.pair()
            c.send_headers(1, h2h.REQ)
            h2h.pump(c, s)
            s.push_stream(1, 2, h2h.REQ)
            wire = models.parse_frames(s.data_to_send())[0].data
            c.reset_stream(1)
            c.data_to_send()
            if collected:
                c.open_outbound_streams
        n0 = len(c.streams)
        k = 0
        for i in range(3):
            pid = sym_choice('promised_%d' % i, [2, 4, 6, 2 ** 31 - 2])
            f = hf.PushPromiseFrame(1)
            f.flags.add('END_HEADERS')
            f.promised_stream_id = pid
            f.data = wire
            try:
                h2h.deliver(c, [f])
            except h2.exceptions.ProtocolError:
                note('connection-error')
                return
            k += 1
            check(len(c.streams) <= n0, 'stream-state-allocated:refused-push-%d' % k,
                  sorted(c.streams))
        note('refused-3')
    return h


def h_size_limit_dict():
    def h():
        limit = sym_int('limit', 0, 8, default=3)
        k = sym_int('prefill', 0, 6, default=3)
        d = SizeLimitDict(size_limit=limit)
        for i in range(6):
            if i < k:
                d[i] = i
        check(len(d) <= limit, 'sizelimitdict-over-limit-prefill', len(d))
        d[100] = 1
        note('inserted')
        check(len(d) <= limit, 'sizelimitdict-over-limit', len(d))
        d2 = SizeLimitDict({1: 1, 2: 2, 3: 3, 4: 4}, size_limit=limit)
        check(len(d2) <= limit, 'sizelimitdict-over-limit-init', len(d2))
    return h


def h_conn_uses_limit(client):
    """the connection's closed-stream memory is a SizeLimitDict with MAX_CLOSED_STREAMS;
    closing one more stream with the memory full does not grow it"""
    def h():
        with h2h.native():
            me = _witness(client)
        cs = me._closed_streams
        check(isinstance(cs, SizeLimitDict) and cs._size_limit == H2Connection.MAX_CLOSED_STREAMS
              and isinstance(H2Connection.MAX_CLOSED_STREAMS, int)
              and 0 < H2Connection.MAX_CLOSED_STREAMS <= 2 ** 20,
              'closed-memory-not-capped', None)
        limit = sym_int('limit', 0, 4, default=2)
        me._closed_streams = SizeLimitDict(size_limit=limit)
        for i in range(4):
            me._closed_streams[1001 + 2 * i] = StreamClosedBy.SEND_RST_STREAM
        me.reset_stream(1)
        me.open_inbound_streams
        me.open_outbound_streams
        note('collected')
        check(len(me.streams) == 0, 'closed-stream-not-collected', None)
        check(len(me._closed_streams) <= limit, 'closed-memory-over-limit',
              len(me._closed_streams))
    return h


def h_continuation_backlog(n, foreign):
    def h():
        fb = h2.frame_buffer.FrameBuffer(server=True)
        for a in ('_headers_buffer',):
            if not hasattr(fb, a):
                raise HarnessError("adapter: FrameBuffer has no %s" % a)
        first = hf.HeadersFrame(1) if not sym_bool('push') else hf.PushPromiseFrame(1)
        fb._headers_buffer = [first] + [hf.ContinuationFrame(1) for _ in range(n - 1)]
        if foreign:
            f = hf.ContinuationFrame(3)
        else:
            f = hf.ContinuationFrame(1)
        # an empty fragment counts like any other
        f.data = sym_bytes('fragment_len', 0, 100, default=0)
        if sym_bool('end_headers'):
            f.flags.add('END_HEADERS')
        limit = h2.frame_buffer.CONTINUATION_BACKLOG
        check(isinstance(limit, int) and 0 < limit <= 1024, 'backlog-limit-missing', limit)
        try:
            r = fb._update_header_buffer(f)
        except h2.exceptions.ProtocolError:
            note('refused')
            check(foreign or n + 1 > limit, 'block-refused-within-limit', n)
        else:
            note('buffered')
            check(not foreign, 'foreign-frame-accepted-in-block', None)
            check(n + 1 <= limit, 'block-over-limit-accepted', n)
            check(len(fb._headers_buffer) <= limit, 'buffer-over-limit', None)
    return h


class DecoderModel:
    """HpackDec: records the limits it is given; decode() raises the chosen hpack error"""

    def __init__(self, exc):
        self.max_header_list_size = None
        self.max_allowed_table_size = None
        self.exc = exc
        self.calls = 0

    def decode(self, data, raw=False):
        self.calls += 1
        if self.exc is not None:
            raise self.exc("model")
        return []


ALL_KEYS = [SettingCodes.HEADER_TABLE_SIZE, SettingCodes.ENABLE_PUSH,
            SettingCodes.MAX_CONCURRENT_STREAMS, SettingCodes.INITIAL_WINDOW_SIZE,
            SettingCodes.MAX_FRAME_SIZE, SettingCodes.ENABLE_CONNECT_PROTOCOL]
RANGE = {SettingCodes.HEADER_TABLE_SIZE: (0, INT32), SettingCodes.ENABLE_PUSH: (0, 1),
         SettingCodes.MAX_CONCURRENT_STREAMS: (0, INT32),
         SettingCodes.INITIAL_WINDOW_SIZE: (0, INT31),
         SettingCodes.MAX_FRAME_SIZE: (16384, 2 ** 24 - 1),
         SettingCodes.ENABLE_CONNECT_PROTOCOL: (0, 1)}


def h_header_list_limit(client, others):
    """the acknowledged MAX_HEADER_LIST_SIZE reaches the decoder (and only at the ACK)"""
    def h():
        with h2h.native():
            me = _witness(client)
        dec = DecoderModel(None)
        dec.max_header_list_size = me.decoder.max_header_list_size
        me.decoder = dec
        old = dec.max_header_list_size
        v = sym_int('limit', 0, INT32, default=100)
        new = {SettingCodes.MAX_HEADER_LIST_SIZE: v}
        for k in others:
            lo, hi = RANGE[k]
            new[k] = sym_int('s%d' % int(k), lo, hi, default=lo)
        me.update_settings(new)
        check(dec.max_header_list_size == old, 'limit-applied-before-ack', None)
        ack = hf.SettingsFrame(0)
        ack.flags.add('ACK')
        try:
            h2h.deliver(me, [ack])
        except h2.exceptions.FlowControlError:
            note('window-overflow')
            return
        note('acked')
        check(dec.max_header_list_size == v, 'acknowledged-limit-not-enforced',
              (dec.max_header_list_size, v))
        # what the PEER advertises as its own limit must not touch the limit we enforce
        f = hf.SettingsFrame(0)
        f.settings = {int(SettingCodes.MAX_HEADER_LIST_SIZE):
                      sym_int('peer_limit', 0, INT32, default=2 ** 31)}
        h2h.sym_companion(f.settings, role_client=not client, exclude=(4,))
        h2h.deliver(me, [f])
        check(dec.max_header_list_size == v, 'peer-setting-changes-the-limit-we-enforce',
              (dec.max_header_list_size, v))
    return h


def h_closed_streams_collected():
    """streams the peer opened and that have ended do not pile up in the stream table:
    whatever MAX_CONCURRENT_STREAMS we advertise, the next stream the peer opens finds the
    ended ones collected (their memory is the capped closed-stream dict)"""
    def h():
        with h2h.native():
            ctx = ops.Ctx(False)
            for sid in (1, 3, 5):
                ops.run_op(ctx, ('HEADERS', sid, 'req', True))
            for sid in (1, 3):
                ops.run_op(ctx, ('send_headers', sid, 'resp', True))
            ops.run_op(ctx, ('reset', 5))
            ctx.me.data_to_send()
        me = ctx.me
        L = sym_int('max_concurrent_streams', 0, INT32, default=100)
        h2h.Adapter.set_local_setting(me, SettingCodes.MAX_CONCURRENT_STREAMS, L)
        out = ops.run_op(ctx, ('HEADERS', 7, 'req', False), symbolic=True)
        note(out.cls[0])
        if out.cls[0] == 'accept':
            check(s_le(1, L), 'stream-accepted-beyond-limit', L)
        else:
            check(s_lt(L, 1), 'stream-refused-below-limit', (L, out.cls))
        dead = [sid for sid, st in me.streams.items() if st.closed]
        check(len(dead) == 0, 'ended-streams-retained-in-stream-table', dead)
        check(len(me.streams) <= 1, 'stream-table-grows', len(me.streams))
    return h


def h_oversized(client, exc_name):
    """decoder refusing the block: OversizedHeaderListError => ENHANCE_YOUR_CALM"""
    def h():
        with h2h.native():
            me = _witness(client)
        exc = getattr(hpack.exceptions, exc_name)
        if CTX.mode == 'sym':
            me.decoder = DecoderModel(exc)
            f = hf.HeadersFrame(3 if not client else 1)
            f.data = sym_bytes('blen', 0, 16384, default=5)
        else:
            # natively: a real oversized block against a real decoder with a tiny limit
            me.decoder.max_header_list_size = 40
            import hpack as _hp
            f = hf.HeadersFrame(3 if not client else 1)
            f.data = _hp.Encoder().encode([(b':status', b'200'), (b'x' * 30, b'y' * 30)])
        f.flags.add('END_HEADERS')
        out = models.Out(me)
        try:
            h2h.deliver(me, [f])
        except h2.exceptions.ProtocolError as e:
            note('refused')
            check(e.error_code == ErrorCodes.ENHANCE_YOUR_CALM, 'oversized-code',
                  e.error_code)
            fr = out.frames()
            check(len(fr) == 1 and isinstance(fr[0], hf.GoAwayFrame) and
                  fr[0].error_code == ErrorCodes.ENHANCE_YOUR_CALM, 'oversized-goaway', None)
        else:
            check(False, 'oversized-block-accepted', None)
    return h


def shards(tier, seed):
    out = []
    for client in (True, False):
        r = 'client' if client else 'server'
        for kind in ('PRIORITY', 'WINDOW_UPDATE', 'RST_STREAM', 'UNKNOWN'):
            out.append(Shard('non_opening/%s/%s' % (r, kind), h_non_opening(client, kind),
                             budget=90))
        out.append(Shard('conn_closed_memory/%s' % r, h_conn_uses_limit(client),
                         expect=['collected']))
        subsets = [[], ALL_KEYS] + [[k] for k in ALL_KEYS]
        if tier == 'thorough':
            subsets += [[a, b] for i, a in enumerate(ALL_KEYS) for b in ALL_KEYS[i + 1:]]
        for sub in subsets:
            if tier == 'quick' and not client and len(sub) == 1 and \
                    sub[0] != SettingCodes.INITIAL_WINDOW_SIZE:
                continue
            out.append(Shard('header_list_limit/%s/with=%s' % (
                r, '+'.join(str(int(k)) for k in sub) or 'none'),
                h_header_list_limit(client, sub), expect=['acked']))
        out.append(Shard('oversized/%s' % r, h_oversized(client, 'OversizedHeaderListError'),
                         expect=['refused']))
    out.append(Shard('size_limit_dict', h_size_limit_dict(), expect=['inserted']))
    for collected in (False, True):
        out.append(Shard('refused_push_allocates_nothing/%s' % (
            'parent-collected' if collected else 'parent-present'),
            h_refused_push_allocates_nothing(collected)))
    out.append(Shard('closed_streams_collected', h_closed_streams_collected(),
                     expect=['accept']))
    for n in (1, 2, 62, 63, 64, 65, 70):
        out.append(Shard('continuation_backlog/n=%d' % n, h_continuation_backlog(n, False)))
    out.append(Shard('continuation_backlog/foreign', h_continuation_backlog(5, True),
                     expect=['refused']))
    return out
