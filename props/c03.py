"""C03 -- outbound DATA never exceeds the peer's flow-control windows."""
from hyperframe import frame as hf

import h2.events
import h2.exceptions
from h2.errors import ErrorCodes

from engine.core import (sym_int, sym_bool, check, note, s_and, s_or, s_not, s_le, s_lt,
                         s_ite, s_min, s_between, INT31)
from engine import h2h, models
from engine.models import sym_bytes
from engine.runner import Shard

MODELS = ['fmt_stub', 'HfSerialize', 'FrameFeed', 'LenBytes', 'SettingsBlob']
MAXN = 2 ** 24 + 512
BOUNDS = {
    'connection window W': '0..2^31-1 (symbolic)',
    'stream windows S1,S3': '-2^31..2^31-1 (symbolic, negative windows included)',
    'peer MAX_FRAME_SIZE M': '2^14..2^24-1 (symbolic)',
    'DATA payload length': '0..2^24+512 (symbolic; beyond M_max so the frame-size refusal is '
                           'covered)',
    'pad_length': 'None or any integer -2^31..2^31 (symbolic)',
    'WINDOW_UPDATE increment': '1..2^31-1 (symbolic; hyperframe rejects others)',
    'INITIAL_WINDOW_SIZE old/new': '0..2^31-1 (symbolic)',
    'streams': '2 open streams + 1 newly created; history length unbounded by induction on '
               'the invariant "library window == window the peer granted" (each step is '
               'checked from an arbitrary pre-state)',
}
OUTSIDE = ['more than 3 streams (the per-stream loops are executed for 2 streams)',
           'payloads longer than 2^24+512 bytes']
ASSUMPTIONS = [
    'representation invariant of the pre-state: 0 <= W <= 2^31-1, -2^31 <= S <= 2^31-1 '
    '(W only moves by WINDOW_UPDATE(+, guarded) and emitted DATA(-, guarded); S additionally '
    'by INITIAL_WINDOW_SIZE deltas)',
    'DATA payload content is never inspected by h2 (LenBytes raises a harness error if it is)',
]


def _witness(client):
    """two open streams on which `me` may send DATA"""
    c, s = h2h.pair()
    c.send_headers(1, h2h.REQ_POST)
    c.send_headers(3, h2h.REQ_POST)
    h2h.pump(c, s)
    if not client:
        s.send_headers(1, h2h.RESP)
        s.send_headers(3, h2h.RESP)
        h2h.pump(c, s)
    return c if client else s


def _prestate(me, sym_m=True):
    W = sym_int('W', 0, INT31, default=65535)
    S1 = sym_int('S1', -INT31 - 1, INT31, default=65535)
    S3 = sym_int('S3', -INT31 - 1, INT31, default=65535)
    M = sym_int('M', 2 ** 14, 2 ** 24 - 1, default=16384) if sym_m else 16384
    h2h.Adapter.set_conn_out_window(me, W)
    h2h.Adapter.set_stream_out_window(me, 1, S1)
    h2h.Adapter.set_stream_out_window(me, 3, S3)
    h2h.Adapter.set_max_out_frame(me, M)
    return W, S1, S3, M


def _windows(me):
    return (me.outbound_flow_control_window,
            me.streams[1].outbound_flow_control_window,
            me.streams[3].outbound_flow_control_window)


def _unchanged(me, W, S1, S3, tag):
    w, s1, s3 = _windows(me)
    check(s_and(w == W, s1 == S1, s3 == S3), tag + '-windows-changed', (w, s1, s3))


def h_send_data(client, padded):
    def h():
        with h2h.native():
            me = _witness(client)
        W, S1, S3, M = _prestate(me)
        data = sym_bytes('n', 0, MAXN, default=10)
        n = len(data)
        end = sym_bool('end')
        pad = sym_int('pad', -INT31 - 1, INT31 + 1, default=0) if padded else None
        lw = me.local_flow_control_window(1)
        check(lw == s_min(W, S1), 'local-window-is-min', (lw, W, S1))
        out = models.Out(me)
        pad_ok = True if pad is None else s_between(0, pad, 255)
        fcl = n if pad is None else n + pad + 1
        fits = s_le(fcl, s_min(W, S1))
        small = s_le(fcl, M)
        try:
            me.send_data(1, data, end_stream=end, pad_length=pad)
        except ValueError:
            note('pad-range')
            check(s_not(pad_ok), 'valueerror-on-valid-pad', pad)
            check(out.nbytes() == 0, 'raise-emits', None)
            _unchanged(me, W, S1, S3, 'raise')
        except h2.exceptions.FlowControlError:
            note('flow-refused')
            check(s_and(pad_ok, s_not(fits)), 'flowcontrol-refused-fitting',
                  (n, pad, W, S1))
            check(out.nbytes() == 0, 'raise-emits', None)
            _unchanged(me, W, S1, S3, 'raise')
        except h2.exceptions.FrameTooLargeError:
            note('size-refused')
            check(s_and(pad_ok, fits, s_not(small)), 'frametoolarge-wrong', (n, pad, M))
            check(out.nbytes() == 0, 'raise-emits', None)
            _unchanged(me, W, S1, S3, 'raise')
        else:
            note('sent')
            check(s_and(pad_ok, fits, small), 'sent-beyond-window-or-size',
                  (n, pad, W, S1, M))
            fr = out.frames()
            check(len(fr) == 1 and isinstance(fr[0], hf.DataFrame) and fr[0].stream_id == 1,
                  'one-data-frame', [type(f).__name__ for f in fr])
            if len(fr) == 1 and isinstance(fr[0], hf.DataFrame):
                f = fr[0]
                # what the PEER will charge: computed from the frame itself
                charged = f.flow_controlled_length
                check(charged == fcl, 'frame-fcl', (charged, fcl))
                check(('END_STREAM' in f.flags) == bool(end), 'frame-end-flag', None)
                check(('PADDED' in f.flags) == (pad is not None), 'frame-padded-flag', None)
                if pad is not None:
                    check(f.pad_length == pad, 'frame-pad-length', None)
                check(len(f.data) == n, 'frame-data-len', None)
                check(f.body_len <= M, 'frame-over-max-frame-size', (f.body_len, M))
                w, s1, s3 = _windows(me)
                check(s_and(w == W - charged, s1 == S1 - charged, s3 == S3),
                      'windows-after-send', (w, s1, s3))
                check(s_and(s_le(0, w), s_le(0, s1)), 'window-negative-after-send', (w, s1))
    return h


def h_end_stream(client):
    def h():
        with h2h.native():
            me = _witness(client)
        W, S1, S3, M = _prestate(me)
        out = models.Out(me)
        me.end_stream(1)
        note('ended')
        fr = out.frames()
        check(len(fr) == 1 and isinstance(fr[0], hf.DataFrame) and
              'END_STREAM' in fr[0].flags and fr[0].flow_controlled_length == 0,
              'end-stream-frame', None)
        _unchanged(me, W, S1, S3, 'end-stream')
    return h


def h_window_update_stream(client):
    def h():
        with h2h.native():
            me = _witness(client)
        W, S1, S3, M = _prestate(me)
        inc = sym_int('inc', 1, INT31, default=100)
        f = hf.WindowUpdateFrame(1)
        f.window_increment = inc
        out = models.Out(me)
        evs = h2h.deliver(me, [f])          # must not raise: overflow is a stream error
        over = s_lt(INT31, S1 + inc)
        fr = out.frames()
        if fr:
            note('stream-overflow')
            check(over, 'reset-without-overflow', (S1, inc))
            check(len(fr) == 1 and isinstance(fr[0], hf.RstStreamFrame) and
                  fr[0].stream_id == 1 and fr[0].error_code == ErrorCodes.FLOW_CONTROL_ERROR,
                  'overflow-rst', None)
            check(len(evs) == 1 and isinstance(evs[0], h2.events.StreamReset) and
                  evs[0].error_code == ErrorCodes.FLOW_CONTROL_ERROR and
                  evs[0].remote_reset is False, 'overflow-event', h2h.ev_names(evs))
            check(me.outbound_flow_control_window == W, 'overflow-conn-window', None)
        else:
            note('credited')
            check(s_not(over), 'overflow-accepted', (S1, inc))
            w, s1, s3 = _windows(me)
            check(s_and(w == W, s1 == S1 + inc, s3 == S3), 'windows-after-wu', (w, s1, s3))
            check(len(evs) == 1 and isinstance(evs[0], h2.events.WindowUpdated) and
                  evs[0].stream_id == 1 and evs[0].delta == inc, 'wu-event', None)
            check(me.local_flow_control_window(1) == s_min(W, S1 + inc), 'local-after-wu',
                  None)
    return h


def h_window_update_conn(client):
    def h():
        with h2h.native():
            me = _witness(client)
        W, S1, S3, M = _prestate(me)
        inc = sym_int('inc', 1, INT31, default=100)
        f = hf.WindowUpdateFrame(0)
        f.window_increment = inc
        out = models.Out(me)
        over = s_lt(INT31, W + inc)
        try:
            evs = h2h.deliver(me, [f])
        except h2.exceptions.ProtocolError as e:
            note('conn-overflow')
            check(over, 'conn-error-without-overflow', (W, inc))
            check(e.error_code == ErrorCodes.FLOW_CONTROL_ERROR, 'conn-overflow-code', None)
            fr = out.frames()
            check(len(fr) == 1 and isinstance(fr[0], hf.GoAwayFrame) and
                  fr[0].error_code == ErrorCodes.FLOW_CONTROL_ERROR, 'conn-overflow-goaway',
                  None)
        else:
            note('credited')
            check(s_not(over), 'conn-overflow-accepted', (W, inc))
            w, s1, s3 = _windows(me)
            check(s_and(w == W + inc, s1 == S1, s3 == S3), 'windows-after-conn-wu',
                  (w, s1, s3))
            check(len(evs) == 1 and isinstance(evs[0], h2.events.WindowUpdated) and
                  evs[0].stream_id == 0 and evs[0].delta == inc, 'conn-wu-event', None)
            check(out.nbytes() == 0, 'conn-wu-emits', None)
    return h


def h_settings(client):
    """INITIAL_WINDOW_SIZE old -> new: every stream window moves by the delta (also into
    negative), the connection window does not move, later streams start at `new`."""
    def h():
        with h2h.native():
            me = _witness(client)
        W, S1, S3, M = _prestate(me, sym_m=False)   # a header block is built below
        old = sym_int('old', 0, INT31, default=65535)
        new = sym_int('new', 0, INT31, default=1000)
        h2h.Adapter.set_remote_initial_window(me, old)
        f = hf.SettingsFrame(0)
        f.settings = {4: new}
        # ... in the company of any other setting (MAX_FRAME_SIZE is left to C02)
        h2h.sym_companion(f.settings, role_client=not client, exclude=(5,))
        out = models.Out(me)
        d = new - old
        over = s_or(s_lt(INT31, S1 + d), s_lt(INT31, S3 + d))
        try:
            h2h.deliver(me, [f])
        except h2.exceptions.ProtocolError as e:
            note('overflow')
            check(over, 'settings-error-without-overflow', (S1, S3, old, new))
            check(e.error_code == ErrorCodes.FLOW_CONTROL_ERROR, 'settings-overflow-code',
                  None)
        else:
            note('applied')
            check(s_not(over), 'settings-overflow-accepted', (S1, S3, old, new))
            w, s1, s3 = _windows(me)
            check(s_and(w == W, s1 == S1 + d, s3 == S3 + d), 'windows-after-settings',
                  (w, s1, s3))
            check(me.local_flow_control_window(1) == s_min(W, S1 + d),
                  'local-after-settings', None)
            # a stream created from now on starts with the new initial size
            if client:
                try:
                    me.send_headers(5, h2h.REQ_POST)
                except h2.exceptions.TooManyStreamsError:
                    note('mcs')     # a companion MAX_CONCURRENT_STREAMS below 3 (C10)
                    return
                check(me.streams[5].outbound_flow_control_window == new, 'new-stream-window',
                      None)
                check(me.local_flow_control_window(5) == s_min(W, new), 'new-stream-local',
                      None)
    return h


def h_settings_reserved():
    """a stream reserved by PUSH_PROMISE (not open yet) has a window too: it follows the
    peer's INITIAL_WINDOW_SIZE like every other stream, and limits DATA once it is opened"""
    def h():
        with h2h.native():
            c, s = h2h.pair()
            c.send_headers(1, h2h.REQ)
            h2h.pump(c, s)
            s.push_stream(1, 2, h2h.REQ)
            s.data_to_send()
        old = sym_int('old', 0, INT31, default=65535)
        new = sym_int('new', 0, INT31, default=1000)
        S2 = sym_int('S2', -INT31 - 1, INT31, default=65535)
        h2h.Adapter.set_remote_initial_window(s, old)
        h2h.Adapter.set_stream_out_window(s, 2, S2)
        h2h.Adapter.set_stream_out_window(s, 1, 0)
        f = hf.SettingsFrame(0)
        f.settings = {4: new}
        h2h.sym_companion(f.settings, role_client=True, exclude=(5,))
        d = new - old
        try:
            h2h.deliver(s, [f])
        except h2.exceptions.ProtocolError:
            note('overflow')
            check(s_lt(INT31, S2 + d), 'settings-error-without-overflow', (S2, old, new))
            return
        note('applied')
        check(s_not(s_lt(INT31, S2 + d)), 'settings-overflow-accepted', None)
        check(s.streams[2].outbound_flow_control_window == S2 + d,
              'reserved-stream-window-not-moved', (s.streams[2].outbound_flow_control_window,
                                                   S2 + d))
        check(s.local_flow_control_window(2) == s_min(s.outbound_flow_control_window, S2 + d),
              'reserved-stream-local-window', None)
    return h


def h_api_only(client):
    """API-only twin: the windows are reached through public inputs only (a SETTINGS
    value, two WINDOW_UPDATE increments, a first DATA), the ghost `peer view` is computed
    from those inputs and from emitted frames; then one more send_data is decided."""
    def h():
        with h2h.native():
            me = _witness(client)
        iws = sym_int('iws', 0, INT31, default=65535)
        inc1 = sym_int('inc1', 1, INT31, default=5)
        inc0 = sym_int('inc0', 1, INT31, default=5)
        PW, PS = 65535, 65535
        f = hf.SettingsFrame(0)
        f.settings = {4: iws}
        h2h.deliver(me, [f])
        PS = PS + (iws - 65535)
        g = hf.WindowUpdateFrame(1)
        g.window_increment = inc1
        out0 = models.Out(me)
        h2h.deliver(me, [g])
        if out0.nbytes():
            note('stream-reset-by-overflow')
            check(s_lt(INT31, PS + inc1), 'api-reset-without-overflow', (iws, inc1))
            return
        PS = PS + inc1
        k = hf.WindowUpdateFrame(0)
        k.window_increment = inc0
        try:
            h2h.deliver(me, [k])
        except h2.exceptions.FlowControlError:
            note('conn-overflow')
            check(s_lt(INT31, PW + inc0), 'api-conn-error-without-overflow', inc0)
            return
        PW = PW + inc0
        d1 = sym_bytes('n1', 0, 70000, default=3)
        out = models.Out(me)
        try:
            me.send_data(1, d1)
        except h2.exceptions.ProtocolError:
            check(out.nbytes() == 0, 'api-raise-emits', None)
        else:
            for fr in out.frames():
                PW = PW - fr.flow_controlled_length
                PS = PS - fr.flow_controlled_length
        check(s_and(s_le(0, PW), s_le(0, PS)), 'api-peer-window-overrun-1', (PW, PS))
        check(me.local_flow_control_window(1) == s_min(PW, PS), 'api-local-window',
              (PW, PS))
        d2 = sym_bytes('n2', 0, 70000, default=4)
        pad = sym_int('pad', 0, 255, default=1)
        out = models.Out(me)
        fcl = len(d2) + pad + 1
        try:
            me.send_data(1, d2, pad_length=pad)
        except h2.exceptions.FlowControlError:
            note('refused')
            check(s_lt(s_min(PW, PS), fcl), 'api-refused-fitting', (PW, PS, fcl))
            check(out.nbytes() == 0, 'api-raise-emits', None)
        except h2.exceptions.FrameTooLargeError:
            note('too-large')
            check(s_lt(16384, fcl), 'api-too-large-wrong', fcl)
        else:
            note('sent')
            for fr in out.frames():
                PW = PW - fr.flow_controlled_length
                PS = PS - fr.flow_controlled_length
            check(s_and(s_le(0, PW), s_le(0, PS)), 'api-peer-window-overrun-2', (PW, PS))
        check(me.local_flow_control_window(1) == s_min(PW, PS), 'api-local-window-2', None)
    return h


def shards(tier, seed):
    from props import c25
    out = []
    for client in (True, False):
        r = 'client' if client else 'server'
        out.append(Shard('send_data/%s/unpadded' % r, h_send_data(client, False),
                         expect=['sent', 'flow-refused', 'size-refused']))
        out.append(Shard('send_data/%s/padded' % r, h_send_data(client, True),
                         expect=['sent', 'flow-refused', 'size-refused', 'pad-range']))
        out.append(Shard('end_stream/%s' % r, h_end_stream(client), expect=['ended']))
        out.append(Shard('recv_window_update_stream/%s' % r, h_window_update_stream(client),
                         expect=['credited', 'stream-overflow']))
        out.append(Shard('recv_window_update_conn/%s' % r, h_window_update_conn(client),
                         expect=['credited', 'conn-overflow']))
        out.append(Shard('recv_settings_iws/%s' % r, h_settings(client),
                         expect=['applied', 'overflow']))
        if tier == 'thorough' or client:
            out.append(Shard('api_only/%s' % r, h_api_only(client), budget=120,
                             expect=['sent', 'refused']))
    out.append(Shard('recv_settings_iws/reserved_stream', h_settings_reserved(),
                     expect=['applied', 'overflow']))
    # the h2c upgrade hands the client's INITIAL_WINDOW_SIZE to stream 1 and leaves the
    # connection windows alone
    out.append(Shard('upgrade_handover', c25.h_settings_handover(True), budget=120,
                     expect=['upgraded']))
    return out
