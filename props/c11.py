"""C11 -- settings take effect exactly when acknowledged, one frame per ACK, in order."""
import itertools

from hyperframe import frame as hf

import h2.events
import h2.exceptions
from h2.errors import ErrorCodes
from h2.settings import SettingCodes

from engine.core import (check, note, sym_int, sym_bool, sym_choice, assume_z, s_le, s_lt, s_and,
                         s_or, s_not, s_eq, s_between, INT31, INT32, CTX)
from engine import h2h, ops, models
from engine.runner import Shard
from props.c12 import expected_code
from props.c27 import DecoderModel

MODELS = ['fmt_stub', 'HfSerialize', 'FrameFeed', 'HpackDec', 'HpackEnc', 'SettingsBlob']
BOUNDS = {
    'received SETTINGS': 'frames with 1 or 2 settings: every single known id, every pair of '
                         'known ids, unknown ids 0, 7, 9, 0xff; values 0..2^32-1 symbolic '
                         '(valid and invalid); one or two frames per receive_data call; '
                         'empty frame',
    'update_settings programs': 'two update_settings calls (first with 1-2 keys, second with 1 '
                                'key; every pair / single of the 7 known ids) + the two ACKs, '
                                'also with the ACK of the initial SETTINGS frame still '
                                'outstanding; values symbolic in their valid ranges; a call with '
                                'an invalid value in first or second position',
}
OUTSIDE = ['more than two unacknowledged update_settings calls; more than two settings per '
           'frame']
ASSUMPTIONS = ['the HPACK encoder / decoder are attribute-recording models (the limits they are '
               'given are compared, not what hpack does with them)']

K = SettingCodes
KNOWN = [K.HEADER_TABLE_SIZE, K.ENABLE_PUSH, K.MAX_CONCURRENT_STREAMS, K.INITIAL_WINDOW_SIZE,
         K.MAX_FRAME_SIZE, K.MAX_HEADER_LIST_SIZE, K.ENABLE_CONNECT_PROTOCOL]
VALID = {K.HEADER_TABLE_SIZE: (0, INT32), K.ENABLE_PUSH: (0, 1),
         K.MAX_CONCURRENT_STREAMS: (0, INT32), K.INITIAL_WINDOW_SIZE: (0, INT31),
         K.MAX_FRAME_SIZE: (16384, 2 ** 24 - 1), K.MAX_HEADER_LIST_SIZE: (0, INT32),
         K.ENABLE_CONNECT_PROTOCOL: (0, 1)}
UNKNOWN = [0, 7, 9, 0xFF]      # hyperframe keeps only the low 8 bits of an id it sends


class EncoderModel:
    def __init__(self):
        self.header_table_size = 4096
        self.sets = []

    def __setattr__(self, n, v):
        object.__setattr__(self, n, v)
        if n == 'header_table_size' and hasattr(self, 'sets'):
            self.sets.append(v)

    def encode(self, headers):
        return b'\x00'


def _witness(client, reserve=False):
    ctx = ops.Ctx(client)
    if client:
        ops.run_op(ctx, ('send_headers', 1, 'req', False))
    else:
        ops.run_op(ctx, ('HEADERS', 1, 'req', False))
        if reserve:
            # a promised stream that is not open yet follows the settings as well
            ops.run_op(ctx, ('push', 1, 2))
    ctx.me.data_to_send()
    return ctx


def _name(k):
    return getattr(k, 'name', str(k)).lower()


def _cur(settings, k):
    try:
        return settings[k]
    except KeyError:
        return None


def h_receive(client, ids, two_frames):
    """one (or two) received SETTINGS frames with symbolic values"""
    def h():
        with h2h.native():
            ctx = _witness(client, reserve=True)
        me = ctx.me
        enc = EncoderModel()
        me.encoder = enc
        frames, expects = [], []
        groups = [ids] if not two_frames else [ids[:1], ids[1:] or ids[:1]]
        for gi, group in enumerate(groups):
            f = hf.SettingsFrame(0)
            vals = {}
            for k in group:
                vals[k] = sym_int('v%d_%s' % (gi, _name(k)), 0, INT32,
                                  default=VALID.get(k, (0, 0))[0])
            f.settings = dict(vals)
            frames.append(f)
            expects.append(vals)
        before = dict((k, _cur(me.remote_settings, k)) for g in groups for k in g)
        out = models.Out(me)
        bad = False
        for vals in expects:
            for k, v in vals.items():
                bad = s_or(bad, s_not(s_eq(expected_code(int(k), v), 0)))
        try:
            evs = h2h.deliver(me, frames)
        except h2.exceptions.ProtocolError as e:
            note('rejected')
            check(bad, 'valid-settings-rejected', None)
            return
        note('applied')
        check(s_not(bad), 'invalid-settings-accepted', None)
        chg = [e for e in evs if isinstance(e, h2.events.RemoteSettingsChanged)]
        check(len(chg) == len(frames) and len(evs) == len(frames),
              'one-remotesettingschanged-per-frame', h2h.ev_names(evs))
        acks = out.frames()
        check(len(acks) == len(frames) and all(
            isinstance(a, hf.SettingsFrame) and 'ACK' in a.flags and not a.settings
            for a in acks), 'one-ack-per-frame', [h2h.frame_sig(a) for a in acks])
        cur = dict(before)
        for ev, vals in zip(chg, expects):
            cs = ev.changed_settings
            check(sorted(int(x) for x in cs) == sorted(int(x) for x in vals),
                  'event-keys', (sorted(cs), sorted(vals)))
            for k, v in vals.items():
                if k in cs:
                    check(s_and(s_eq(cs[k].new_value, v), cs[k].original_value == cur[k] or
                                (cur[k] is not None and s_eq(cs[k].original_value, cur[k]))),
                          'event-values:' + _name(k), (cs[k].original_value, cs[k].new_value))
                cur[k] = v
        # applied at once, and enforced where it matters
        for k, v in cur.items():
            check(s_eq(me.remote_settings[k], v), 'not-applied:' + _name(k), None)
            if k == K.MAX_FRAME_SIZE:
                check(s_eq(me.max_outbound_frame_size, v), 'max-outbound-frame-size-stale', None)
                for sid_ in sorted(me.streams):
                    check(s_eq(me.streams[sid_].max_outbound_frame_size, v),
                          'stream-max-outbound-frame-size-stale', sid_)
            if k == K.HEADER_TABLE_SIZE:
                check(s_eq(enc.header_table_size, v), 'encoder-table-size-stale', None)
            if k == K.INITIAL_WINDOW_SIZE:
                check(s_eq(me.streams[1].outbound_flow_control_window,
                           65535 + (v - before[k])), 'stream-window-not-moved', None)
                if 2 in me.streams:
                    check(s_eq(me.streams[2].outbound_flow_control_window,
                               65535 + (v - before[k])), 'reserved-stream-window-not-moved',
                          None)
                    check(s_eq(me.streams[2].max_outbound_frame_size,
                               me.max_outbound_frame_size),
                          'reserved-stream-max-outbound-frame-size-stale', None)
    return h


def h_receive_empty(client):
    def h():
        with h2h.native():
            ctx = _witness(client)
        out = models.Out(ctx.me)
        evs = h2h.deliver(ctx.me, [hf.SettingsFrame(0)])
        note('applied')
        check(len(evs) == 1 and isinstance(evs[0], h2.events.RemoteSettingsChanged) and
              len(evs[0].changed_settings) == 0, 'empty-settings-event', h2h.ev_names(evs))
        acks = out.frames()
        check(len(acks) == 1 and isinstance(acks[0], hf.SettingsFrame) and 'ACK' in acks[0].flags,
              'empty-settings-not-acknowledged', None)
    return h


def _enforced(me, k):
    """the value the library currently ENFORCES for local setting k"""
    if k == K.MAX_FRAME_SIZE:
        return me.max_inbound_frame_size
    if k == K.MAX_HEADER_LIST_SIZE:
        return me.decoder.max_header_list_size
    if k == K.HEADER_TABLE_SIZE:
        return me.decoder.max_allowed_table_size
    if k == K.INITIAL_WINDOW_SIZE:
        return me.streams[1]._inbound_window_manager.max_window_size
    return _cur(me.local_settings, k)


def _ack():
    a = hf.SettingsFrame(0)
    a.flags.add('ACK')
    return a


def h_update(client, keys_a, key_b, initial_outstanding):
    """update A (1-2 keys), update B (1 key), then the ACKs one by one"""
    def h():
        with h2h.native():
            if initial_outstanding:
                me = h2h.conn(client)
                me.initiate_connection()
                pre = b'PRI * HTTP/2.0\r\n\r\nSM\r\n\r\n' if not client else b''
                me.receive_data(pre + hf.SettingsFrame(0).serialize())
                me.data_to_send()
                if client:
                    me.send_headers(1, h2h.REQ)
                else:
                    import hpack
                    f = hf.HeadersFrame(1)
                    f.flags.add('END_HEADERS')
                    f.data = hpack.Encoder().encode(h2h.REQ)
                    me.receive_data(f.serialize())
                me.data_to_send()
            else:
                me = _witness(client).me
        dec = DecoderModel(None)
        dec.max_header_list_size = me.decoder.max_header_list_size
        dec.max_allowed_table_size = 4096
        me.decoder = dec
        # INITIAL_WINDOW_SIZE: keep stream windows away from the overflow rule (C04/C12)
        A = {}
        for k in keys_a:
            lo, hi = VALID[k]
            if k == K.INITIAL_WINDOW_SIZE:
                hi = 10 ** 6
            A[k] = sym_int('a_' + _name(k), lo, hi, default=lo)
        lo, hi = VALID[key_b]
        if key_b == K.INITIAL_WINDOW_SIZE:
            hi = 10 ** 6
        B = {key_b: sym_int('b_' + _name(key_b), lo, hi, default=hi)}
        keys = sorted(set(keys_a) | {key_b}, key=int)
        start = dict((k, _enforced(me, k)) for k in keys)
        local0 = dict((k, _cur(me.local_settings, k)) for k in keys)
        out = models.Out(me)
        me.update_settings(dict(A))
        me.update_settings(dict(B))
        fr = out.frames()
        check(len(fr) == 2 and all(isinstance(f, hf.SettingsFrame) and 'ACK' not in f.flags
                                   for f in fr), 'two-settings-frames', None)
        if len(fr) == 2:
            check(sorted(int(x) for x in fr[0].settings) == sorted(int(x) for x in A) and
                  sorted(int(x) for x in fr[1].settings) == [int(key_b)], 'frame-contents', None)
        for k in keys:
            check(s_eq_opt(_enforced(me, k), start[k]), 'enforced-before-ack:' + _name(k), None)
        expected = dict(start)
        sequence = ([('initial', {})] if initial_outstanding else []) + [('A', A), ('B', B)]
        for label, changes in sequence:
            evs = h2h.deliver(me, [_ack()])
            note('ack-' + label)
            acks = [e for e in evs if isinstance(e, h2.events.SettingsAcknowledged)]
            check(len(acks) == 1 and len(evs) == 1, 'one-settingsacknowledged-per-ack',
                  h2h.ev_names(evs))
            for k, v in changes.items():
                expected[k] = v
            if acks:
                cs = acks[0].changed_settings
                check(sorted(int(x) for x in cs) == sorted(int(x) for x in changes),
                      'ack-%s-reports-other-frames-changes' % label,
                      (sorted(int(x) for x in cs), sorted(int(x) for x in changes)))
                for k, v in changes.items():
                    if k in cs:
                        check(s_eq(cs[k].new_value, v), 'ack-event-new-value:' + _name(k), None)
            for k in keys:
                check(s_eq_opt(_enforced(me, k), expected[k]),
                      'ack-%s-enforcement:%s' % (label, _name(k)),
                      (_enforced(me, k), expected[k]))
                check(s_eq_opt(_cur(me.local_settings, k),
                               expected[k] if k in A or k in B else local0[k])
                      if (label != 'initial' or True) and
                      k in (K.ENABLE_PUSH, K.MAX_CONCURRENT_STREAMS, K.ENABLE_CONNECT_PROTOCOL)
                      else True, 'ack-%s-value:%s' % (label, _name(k)), None)
    return h


def s_eq_opt(a, b):
    if a is None or b is None:
        return a is b
    return s_eq(a, b)


def h_update_invalid(client, good_key, bad_key, bad_first):
    """a raising update_settings changes nothing and emits nothing"""
    def h():
        with h2h.native():
            me = _witness(client).me
        lo, hi = VALID[good_key]
        good = sym_int('good', lo, hi, default=lo)
        blo, bhi = VALID[bad_key]
        bad = sym_int('bad', bhi + 1, INT32 + 5, default=bhi + 1)
        new = {}
        if bad_first:
            new[bad_key] = bad
            new[good_key] = good
        else:
            new[good_key] = good
            new[bad_key] = bad
        out = models.Out(me)
        try:
            me.update_settings(new)
        except h2.exceptions.InvalidSettingsValueError as e:
            note('refused')
            check(e.error_code == expected_code(int(bad_key), bad), 'invalid-code', None)
        else:
            check(False, 'invalid-update-accepted', None)
            return
        check(out.nbytes() == 0, 'refused-update-emits', None)
        before_g = _cur(me.local_settings, good_key)
        evs = h2h.deliver(me, [_ack()])
        acks = [e for e in evs if isinstance(e, h2.events.SettingsAcknowledged)]
        check(acks and len(acks[0].changed_settings) == 0,
              'refused-update-left-pending-change:' + _name(good_key),
              sorted(int(x) for x in acks[0].changed_settings) if acks else None)
        check(s_eq_opt(_cur(me.local_settings, good_key), before_g),
              'refused-update-applied-later:' + _name(good_key), None)
    return h


def shards(tier, seed):
    out = []
    singles = [[k] for k in KNOWN]
    pairs = [list(p) for p in itertools.combinations(KNOWN, 2)]
    for client in (True, False):
        r = 'client' if client else 'server'
        for ids in singles + pairs + [[u] for u in UNKNOWN] + [[UNKNOWN[1], K.MAX_FRAME_SIZE]]:
            if tier == 'quick' and not client and len(ids) == 2 and K.MAX_FRAME_SIZE not in ids:
                continue
            name = '+'.join(_name(k) for k in ids)
            out.append(Shard('receive/%s/%s' % (r, name), h_receive(client, ids, False),
                             expect=['applied']))
            if len(ids) == 2 and (tier == 'thorough' or client):
                out.append(Shard('receive2/%s/%s' % (r, name), h_receive(client, ids, True),
                                 expect=['applied']))
        out.append(Shard('receive/%s/empty' % r, h_receive_empty(client), expect=['applied']))
        # the same id in two successive frames (known and unknown ids): the second event
        # reports the first frame's value as the original one
        for k in (UNKNOWN[1], UNKNOWN[2], K.MAX_CONCURRENT_STREAMS, K.INITIAL_WINDOW_SIZE):
            out.append(Shard('receive2/%s/%s-twice' % (r, _name(k)),
                             h_receive(client, [k, k], True), expect=['applied']))
        akeys = singles + pairs
        for ka in akeys:
            bs = KNOWN if tier == 'thorough' else [ka[0], K.INITIAL_WINDOW_SIZE,
                                                   K.MAX_FRAME_SIZE]
            for kb in sorted(set(bs), key=int):
                if tier == 'quick' and not client and len(ka) == 1:
                    continue
                name = '%s/then/%s/%s' % ('+'.join(_name(k) for k in ka), _name(kb),
                                          'overlap' if kb in ka else 'disjoint')
                out.append(Shard('update/%s/%s' % (r, name), h_update(client, ka, kb, False),
                                 expect=['ack-A', 'ack-B']))
        for ka in ([K.MAX_FRAME_SIZE], [K.INITIAL_WINDOW_SIZE], [K.MAX_CONCURRENT_STREAMS]):
            out.append(Shard('update_before_initial_ack/%s/%s' % (r, _name(ka[0])),
                             h_update(client, ka, K.ENABLE_PUSH if client else
                                      K.MAX_HEADER_LIST_SIZE, True),
                             expect=['ack-initial', 'ack-A', 'ack-B']))
        for good, bad in ((K.MAX_CONCURRENT_STREAMS, K.MAX_FRAME_SIZE),
                          (K.INITIAL_WINDOW_SIZE, K.ENABLE_PUSH),
                          (K.MAX_HEADER_LIST_SIZE, K.INITIAL_WINDOW_SIZE)):
            for bad_first in (False, True):
                out.append(Shard('update_invalid/%s/%s+%s/%s' % (
                    r, _name(good), _name(bad), 'bad-first' if bad_first else 'bad-last'),
                    h_update_invalid(client, good, bad, bad_first), expect=['refused']))
    # the HTTP2-Settings header of an h2c upgrade takes effect like a received SETTINGS frame
    from props import c25
    out.append(Shard('upgrade_handover', c25.h_settings_handover(True), budget=120,
                     expect=['upgraded']))
    return out
