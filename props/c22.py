"""C22 -- server push rules are enforced on both ends."""
from hyperframe import frame as hf

import h2.events
import h2.exceptions
from h2.settings import SettingCodes

from engine.core import check, note, sym_int, sym_choice, CTX
from engine import h2h, ops, models
from engine.observer import OPEN, HCR, HCL, CLOSED, IDLE, RES_REMOTE, RES_LOCAL
from engine.runner import Shard
from props import fsm_common as F

MODELS = ['fmt_stub', 'HfSerialize', 'FrameFeed', 'LenBytes']
BOUNDS = {
    'histories': 'catalogue entries of the one-stream, push and two-stream slices (parent in '
                 'every reachable state) x ENABLE_PUSH current value in {0,1} with an optional '
                 'pending (unacknowledged) change, then push_stream(parent, promised, headers) / '
                 'a received PUSH_PROMISE with parent in {1,2,3,5} and promised id chosen by the '
                 'solver from {0..7} (covers odd, too low, equal to a live stream, fresh)',
    'request headers of the push': 'valid request, or a response block (invalid)',
}
OUTSIDE = ['promised ids above 7 (C09 covers the id arithmetic up to 2^31-1)']
ASSUMPTIONS = ['hyperframe only delivers PUSH_PROMISE with an even non-zero promised id']

PE = 1


def push_ok(pre, client, parent, promised, push_enabled, valid_headers):
    v = pre.s(parent)
    return (not client and push_enabled and parent % 2 == 1 and v.st in (OPEN, HCR)
            and v.requester is False and promised % 2 == 0 and promised > pre.highest_out
            and promised > 0 and valid_headers and pre.conn_closed is None)


def make(client, history, cfg_push):
    """cfg_push = (current value, pending value or None) of the relevant ENABLE_PUSH"""
    cur, pending = cfg_push

    def h():
        with h2h.native():
            ctx = ops.replay(client, history)
            me = ctx.me
            # ENABLE_PUSH as seen by `me`: for a server it is the client's (remote) setting,
            # for a client its own acknowledged (local) setting
            if client:
                if pending == 'toggled':
                    # two changes in flight at once, back to `cur`; both acknowledged
                    me.update_settings({SettingCodes.ENABLE_PUSH: 1 - cur})
                    me.update_settings({SettingCodes.ENABLE_PUSH: cur})
                    for _ in range(2):
                        a = hf.SettingsFrame(0)
                        a.flags.add('ACK')
                        me.receive_data(a.serialize())
                elif cur == 0:
                    me.update_settings({SettingCodes.ENABLE_PUSH: 0})
                    a = hf.SettingsFrame(0)
                    a.flags.add('ACK')
                    me.receive_data(a.serialize())
                if pending in (0, 1):
                    me.update_settings({SettingCodes.ENABLE_PUSH: pending})
            else:
                if cur == 0:
                    s = hf.SettingsFrame(0)
                    s.settings = {SettingCodes.ENABLE_PUSH: 0}
                    me.receive_data(s.serialize())
            me.data_to_send()
            pre = ctx.obs.clone()
        parent = sym_choice('parent', [1, 2, 3, 5])
        if client:
            promised = sym_choice('promised', [2, 4, 6])
            op = ('PP', parent, promised)
            out = ops.run_op(ctx, op, symbolic=True)
            note(out.cls[0])
            v = pre.s(parent)
            fresh = promised > pre.highest_in
            if pre.conn_closed is not None:
                check(out.cls[0] == 'conn_error', 'pp-on-closed-connection', out.cls)
                return
            if cur == 0:
                # the acknowledged value counts, not the pending one
                check(out.cls == ('conn_error', PE), 'push-disabled-but-pp-not-refused',
                      (parent, promised, out.cls))
                return
            if parent % 2 == 0:
                if v.st == CLOSED and v.closed_by == 'send_rst':
                    # also a frame racing our reset of the (pushed) parent: a quiet refusal
                    # is as good as the recursive-push connection error
                    check(out.cls[0] in ('conn_error', 'stream_error'),
                          'recursive-push-accepted', out.cls)
                else:
                    check(out.cls[0] in ('conn_error',), 'recursive-push-accepted', out.cls)
                return
            if not fresh:
                check(out.cls[0] != 'accept' or False, 'stale-promised-id-accepted', out.cls)
                return
            if v.st in (OPEN, HCL) and v.requester:
                check(out.cls == ('accept',), 'valid-push-refused', (parent, promised, out.cls))
                evs = [e for e in out.events if isinstance(e, h2.events.PushedStreamReceived)]
                check(len(evs) == 1, 'no-pushed-stream-event', h2h.ev_names(out.events))
                if evs:
                    e = evs[0]
                    check(e.parent_stream_id == parent and e.pushed_stream_id == promised,
                          'pushed-event-ids', (e.parent_stream_id, e.pushed_stream_id))
                    check([tuple(x) for x in e.headers] == [tuple(x) for x in h2h.REQ_PUSHED],
                          'pushed-event-headers', e.headers)
                # the promised stream only carries a response
                o2 = ops.run_op(ctx, ('HEADERS', promised, 'req', False), symbolic=True)
                check(o2.cls[0] == 'conn_error', 'request-on-promised-stream-accepted', o2.cls)
            elif v.st == CLOSED and v.closed_by == 'send_rst':
                check(out.cls[0] == 'stream_error' and out.cls[1] == 7 and
                      out.cls[2] == promised, 'push-on-reset-parent-not-refused', out.cls)
            elif v.st in (IDLE, CLOSED, RES_REMOTE):
                check(out.cls[0] == 'conn_error', 'push-on-dead-parent-accepted' + (
                    ':parent-of-push-on-half-closed(remote)'
                    if getattr(v, 'pp_on_hcr', False) else ''),
                    (v.st, v.closed_by, out.cls))
            else:
                note('unspecified-parent-state:' + v.st)
        else:
            promised = sym_choice('promised', [0, 1, 2, 3, 4, 6])
            valid = sym_choice('headers', [True, False])
            out0 = models.Out(ctx.me)
            exc = None
            try:
                ctx.me.push_stream(parent, promised, h2h.REQ if valid else h2h.RESP)
            except Exception as e:      # noqa
                exc = e
            frames = out0.frames()
            ok = push_ok(pre, client, parent, promised, cur == 1, valid)
            if exc is None:
                note('pushed')
                check(ok, 'invalid-push-accepted', (parent, promised, valid, pre.s(parent).key()))
                check(len(frames) == 1 and isinstance(frames[0], hf.PushPromiseFrame) and
                      frames[0].stream_id == parent and
                      frames[0].promised_stream_id == promised, 'push-frame',
                      [h2h.frame_sig(f) for f in frames])
            else:
                note('refused')
                check(not isinstance(exc, (KeyError, AssertionError, IndexError)),
                      'crash:' + type(exc).__name__, None)
                check(not ok, 'valid-push-refused', (parent, promised, repr(exc)[:80]))
                check(len(frames) == 0, 'refused-push-emits', None)
    return h


def h_push_retry():
    """a push_stream call that is refused (parent already ended by us, or an invalid request
    header list) uses up nothing: the same promised id on a live parent then succeeds"""
    def h():
        with h2h.native():
            ctx = ops.Ctx(False)
            ops.run_op(ctx, ('HEADERS', 1, 'req', False))
            ops.run_op(ctx, ('HEADERS', 3, 'req', False))
            ops.run_op(ctx, ('send_headers', 1, 'resp', True))
            ctx.me.data_to_send()
        me = ctx.me
        pid = sym_choice('promised', [2, 4, 10])
        why = sym_choice('refused_because', ['parent-ended', 'invalid-headers', 'no-path'])
        out0 = models.Out(me)
        try:
            if why == 'parent-ended':
                me.push_stream(1, pid, h2h.REQ)
            elif why == 'invalid-headers':
                me.push_stream(3, pid, h2h.RESP)
            else:
                me.push_stream(3, pid, [(b':method', b'GET'), (b':scheme', b'https'),
                                        (b':authority', b'example.com')])
        except h2.exceptions.ProtocolError:
            note('refused')
        else:
            note('first-accepted')
            return
        check(out0.nbytes() == 0, 'refused-push-emits', why)
        out = models.Out(me)
        try:
            me.push_stream(3, pid, h2h.REQ)
        except h2.exceptions.ProtocolError as e:
            check(False, 'valid-push-refused:after-refused-push', (why, pid, repr(e)[:80]))
            return
        fr = out.frames()
        check(len(fr) == 1 and isinstance(fr[0], hf.PushPromiseFrame) and
              fr[0].promised_stream_id == pid, 'push-frame', [h2h.frame_sig(f) for f in fr])
        check(me.get_next_available_stream_id() == pid + 2, 'next-id-after-push',
              me.get_next_available_stream_id())
    return h


def hist_has_settings(hist):
    return any(o[0] in ('settings', 'SETTINGS') for o in hist)


def h_client_cannot_push(history):
    def h():
        with h2h.native():
            ctx = ops.replay(True, history)
        parent = sym_choice('parent', [1, 2, 3])
        promised = sym_choice('promised', [2, 3, 4])
        o = ops.run_op(ctx, ('push', parent, promised), symbolic=True)
        note(o.cls[0])
        check(o.cls[0] == 'refused', 'client-pushes', o.cls)
        check(len(o.frames) == 0, 'refused-push-emits', None)
    return h


def h_server_recv_pp(history):
    def h():
        with h2h.native():
            ctx = ops.replay(False, history)
        parent = sym_choice('parent', [1, 2, 3])
        promised = sym_choice('promised', [2, 4])
        o = ops.run_op(ctx, ('PP', parent, promised), symbolic=True)
        note(o.cls[0])
        check(o.cls[0] == 'conn_error', 'server-accepts-push-promise', o.cls)
    return h


def shards(tier, seed):
    out = []
    for client in (True, False):
        role = 'client' if client else 'server'
        seen = set()
        hs = []
        for sl in F.slices(tier, seed, client):
            if sl['upgrade']:
                continue
            for hist, depth in sl['entries']:
                ctx = ops.replay(client, hist)
                if ctx.obs.conn_closed is not None:
                    continue
                key = ctx.obs.key()
                if key in seen:
                    continue
                seen.add(key)
                hs.append(hist)
        for hist in hs:
            cfgs = ((1, None), (0, None)) + (((1, 0), (0, 1)) if client else ())
            if client and not hist_has_settings(hist):
                cfgs = cfgs + ((1, 'toggled'),)
            for cfg in cfgs:
                out.append(Shard('push/%s/%s/enable_push=%s%s' % (
                    role, F.hist_name(hist), cfg[0],
                    '' if cfg[1] is None else '/pending=%s' % cfg[1]),
                    make(client, list(hist), cfg), budget=120, twin=False,
                    params={'history': [list(o) for o in hist]}))
            if client:
                out.append(Shard('client_push/%s' % F.hist_name(hist),
                                 h_client_cannot_push(list(hist)), twin=False))
            else:
                out.append(Shard('server_recv_pp/%s' % F.hist_name(hist),
                                 h_server_recv_pp(list(hist)), twin=False))
    out.append(Shard('push_retry/server', h_push_retry(), twin=False, expect=['refused']))
    from props import c07
    out.append(Shard('repromise/client', c07.h_repromise(), budget=150, twin=False))
    return out
