"""C23 -- priority information round-trips and never changes stream state."""
from hyperframe import frame as hf

import h2.events
import h2.exceptions
from h2.errors import ErrorCodes

from engine.core import (sym_int, sym_bool, check, note, s_and, s_or, s_not, s_eq, s_le,
                         s_lt, s_ite, s_between, INT31, CTX)
from engine import h2h, models, fingerprint
from engine.runner import Shard

MODELS = ['fmt_stub', 'HfSerialize', 'FrameFeed', 'HpackEnc', 'LenBytes']
BOUNDS = {
    'weight': 'None or any integer -2^31..2^31 (symbolic)',
    'depends_on': 'None or 0..2^31-1 (symbolic)',
    'exclusive': 'None or bool (symbolic)',
    'target stream id': '1..2^31-1 (symbolic) for prioritize() and received PRIORITY: idle, '
                        'open, closed and never-used ids alike; concrete new id for '
                        'send_headers',
    'connection states': 'idle, open with one open stream + one closed stream; client, server',
}
OUTSIDE = ['depends_on above 2^31-1 (does not fit the wire field; hyperframe contract)',
           'stream id 0 for prioritize() (hyperframe refuses to build the frame)']
ASSUMPTIONS = ['hyperframe packs/unpacks the 31-bit dependency + exclusive bit and the '
               'weight octet faithfully (validated on boundary values at every run)']

NONE_COMBOS = [(w, d, e) for w in (0, 1) for d in (0, 1) for e in (0, 1)]


def _args(combo):
    w = sym_int('weight', -INT31, INT31, default=16) if combo[0] else None
    d = sym_int('depends_on', 0, INT31, default=0) if combo[1] else None
    e = sym_bool('exclusive') if combo[2] else None
    return w, d, e


def _expected(sid, w, d, e):
    """(accepted?, wire weight, depends_on, exclusive)"""
    ok = True
    if d is not None:
        ok = s_not(s_eq(d, sid))
    if w is not None:
        ok = s_and(ok, s_between(1, w, 256))
    return ok, (w - 1 if w is not None else 15), (d if d is not None else 0), \
        (e if e is not None else False)


def _witness(state):
    c, s = h2h.pair()
    if state == 'open':
        c.send_headers(1, h2h.REQ_POST)
        c.send_headers(3, h2h.REQ, end_stream=True)
        h2h.pump(c, s)
        s.send_headers(3, h2h.RESP, end_stream=True)
        h2h.pump(c, s)
    return c, s


def h_prioritize(state, combo):
    """client.prioritize(...) -> PRIORITY frame -> server event"""
    def h():
        with h2h.native():
            c, s = _witness(state)
        sid = sym_int('sid', 1, INT31, default=1)
        w, d, e = _args(combo)
        ok, ww, dd, ee = _expected(sid, w, d, e)
        out = models.Out(c)
        before = fingerprint.snapshot(c)
        try:
            c.prioritize(sid, weight=w, depends_on=d, exclusive=e)
        except h2.exceptions.ProtocolError:
            note('refused')
            check(s_not(ok), 'valid-priority-refused', (sid, w, d, e))
            check(out.nbytes() == 0, 'raise-emits', None)
            return
        note('sent')
        check(ok, 'invalid-priority-accepted', (sid, w, d, e))
        fr = out.frames()
        check(len(fr) == 1 and isinstance(fr[0], hf.PriorityFrame), 'one-priority-frame',
              [h2h.frame_sig(f) for f in fr])
        if not (len(fr) == 1 and isinstance(fr[0], hf.PriorityFrame)):
            return
        f = fr[0]
        check(s_and(f.stream_id == sid, f.stream_weight == ww, f.depends_on == dd,
                    bool(f.exclusive) == bool(ee)), 'priority-frame-fields',
              (f.stream_id, f.stream_weight, f.depends_on, f.exclusive))
        same, diffs = fingerprint.same(before, fingerprint.snapshot(c))
        check(same, 'prioritize-changes-sender-state', diffs)
        # deliver to the peer
        sbefore = fingerprint.snapshot(s)
        sout = models.Out(s)
        evs = h2h.deliver(s, fr)
        check(len(evs) == 1 and isinstance(evs[0], h2.events.PriorityUpdated),
              'one-priority-event', h2h.ev_names(evs))
        if len(evs) == 1 and isinstance(evs[0], h2.events.PriorityUpdated):
            ev = evs[0]
            exp_w = w if w is not None else 16
            check(s_and(ev.stream_id == sid, ev.weight == exp_w, ev.depends_on == dd,
                        bool(ev.exclusive) == bool(ee)), 'event-fields',
                  (ev.stream_id, ev.weight, ev.depends_on, ev.exclusive))
        check(sout.nbytes() == 0, 'priority-answered', None)
        same, diffs = fingerprint.same(sbefore, fingerprint.snapshot(s))
        check(same, 'priority-changes-receiver-state', diffs)
    return h


def h_prioritize_server(state):
    def h():
        with h2h.native():
            c, s = _witness(state)
        sid = sym_int('sid', 1, INT31, default=1)
        w, d, e = _args((1, 1, 1))
        out = models.Out(s)
        try:
            s.prioritize(sid, weight=w, depends_on=d, exclusive=e)
        except h2.exceptions.RFC1122Error:
            note('refused')
            check(out.nbytes() == 0, 'raise-emits', None)
        else:
            check(False, 'server-prioritize-accepted', None)
    return h


def h_recv_priority(client, state):
    """a PRIORITY frame with arbitrary fields on an arbitrary stream id"""
    def h():
        with h2h.native():
            c, s = _witness(state)
            me = c if client else s
        sid = sym_int('sid', 1, INT31, default=5)
        dep = sym_int('depends_on', 0, INT31, default=0)
        wt = sym_int('wire_weight', 0, 255, default=15)
        ex = sym_bool('exclusive')
        f = hf.PriorityFrame(sid)
        f.depends_on = dep
        f.stream_weight = wt
        f.exclusive = ex
        before = fingerprint.snapshot(me)
        out = models.Out(me)
        try:
            evs = h2h.deliver(me, [f])
        except h2.exceptions.ProtocolError as e:
            note('self-dependency')
            check(s_eq(dep, sid), 'priority-rejected', (sid, dep))
            check(e.error_code == ErrorCodes.PROTOCOL_ERROR, 'self-dependency-code', None)
            fr = out.frames()
            check(len(fr) == 1 and isinstance(fr[0], hf.GoAwayFrame) and
                  fr[0].error_code == ErrorCodes.PROTOCOL_ERROR, 'self-dependency-goaway',
                  None)
            return
        note('updated')
        check(s_not(s_eq(dep, sid)), 'self-dependency-accepted', (sid, dep))
        check(len(evs) == 1 and isinstance(evs[0], h2.events.PriorityUpdated),
              'one-priority-event', h2h.ev_names(evs))
        if len(evs) == 1 and isinstance(evs[0], h2.events.PriorityUpdated):
            ev = evs[0]
            check(s_and(ev.stream_id == sid, ev.weight == wt + 1, ev.depends_on == dep,
                        bool(ev.exclusive) == bool(ex)), 'event-fields', None)
        check(out.nbytes() == 0, 'priority-answered', None)
        same, diffs = fingerprint.same(before, fingerprint.snapshot(me))
        check(same, 'priority-changes-receiver-state', diffs)
    return h


def h_recv_headers_priority(trailers):
    """a peer-built HEADERS frame carrying the PRIORITY flag with arbitrary fields (a
    request opening stream 5, or trailers on the open stream 1)"""
    def h():
        with h2h.native():
            c, s = _witness('open')
            c.send_headers(5, h2h.REQ)
            wire = models.parse_frames(c.data_to_send())[0].data
        sid = 1 if trailers else 5
        dep = sym_int('depends_on', 0, INT31, default=0)
        wt = sym_int('wire_weight', 0, 255, default=15)
        ex = sym_bool('exclusive')
        f = hf.HeadersFrame(sid)
        f.flags.add('END_HEADERS')
        f.flags.add('PRIORITY')
        if trailers:
            f.flags.add('END_STREAM')
            with h2h.native():
                f.data = c.encoder.encode(h2h.TRAILERS)
        else:
            f.data = wire
        f.depends_on, f.stream_weight, f.exclusive = dep, wt, ex
        out = models.Out(s)
        try:
            evs = h2h.deliver(s, [f])
        except h2.exceptions.ProtocolError as e:
            note('self-dependency')
            check(s_eq(dep, sid), 'priority-rejected', (sid, dep))
            check(e.error_code == ErrorCodes.PROTOCOL_ERROR, 'self-dependency-code', None)
            return
        note('updated')
        check(s_not(s_eq(dep, sid)), 'self-dependency-accepted', (sid, dep))
        pe = [e for e in evs if isinstance(e, h2.events.PriorityUpdated)]
        check(len(pe) == 1, 'one-priority-event', h2h.ev_names(evs))
        if len(pe) == 1:
            ev = pe[0]
            check(s_and(ev.stream_id == sid, ev.weight == wt + 1, ev.depends_on == dep,
                        bool(ev.exclusive) == bool(ex)), 'event-fields', None)
            first = evs[0]
            check(getattr(first, 'priority_updated', None) is ev and evs.index(ev) > 0,
                  'headers-priority-link', h2h.ev_names(evs))
    return h


def h_headers_priority(combo):
    """send_headers(priority_*) on a new client stream -> HEADERS+PRIORITY -> server"""
    def h():
        with h2h.native():
            c, s = _witness('open')
        sid = 5
        w, d, e = _args(combo)
        ok, ww, dd, ee = _expected(sid, w, d, e)
        out = models.Out(c)
        try:
            c.send_headers(sid, h2h.REQ, priority_weight=w, priority_depends_on=d,
                           priority_exclusive=e)
        except h2.exceptions.ProtocolError:
            note('refused')
            check(s_not(ok), 'valid-priority-refused', (w, d, e))
            return
        note('sent')
        check(ok, 'invalid-priority-accepted', (w, d, e))
        fr = out.frames()
        check(len(fr) == 1 and isinstance(fr[0], hf.HeadersFrame) and
              'PRIORITY' in fr[0].flags, 'headers-priority-flag',
              [h2h.frame_sig(f) for f in fr])
        if not (len(fr) == 1 and isinstance(fr[0], hf.HeadersFrame)):
            return
        f = fr[0]
        check(s_and(f.stream_weight == ww, f.depends_on == dd,
                    bool(f.exclusive) == bool(ee)), 'headers-priority-fields', None)
        evs = h2h.deliver(s, fr)
        names = h2h.ev_names(evs)
        check(names == ['RequestReceived', 'PriorityUpdated'], 'headers-priority-events',
              names)
        if names == ['RequestReceived', 'PriorityUpdated']:
            check(evs[0].priority_updated is evs[1], 'priority-updated-attached', None)
            ev = evs[1]
            exp_w = w if w is not None else 16
            check(s_and(ev.stream_id == sid, ev.weight == exp_w, ev.depends_on == dd,
                        bool(ev.exclusive) == bool(ee)), 'event-fields', None)
    return h


def h_headers_priority_server():
    def h():
        with h2h.native():
            c, s = _witness('open')
        w, d, e = _args((1, 1, 1))
        try:
            s.send_headers(1, h2h.RESP, priority_weight=w, priority_depends_on=d,
                           priority_exclusive=e)
        except h2.exceptions.RFC1122Error:
            note('refused')
        else:
            check(False, 'server-priority-accepted', None)
    return h


def v_priority_packing():
    """hyperframe packs what it is given (boundary values, real serialise + parse)"""
    n = 0
    for dep in (0, 1, 2 ** 31 - 1):
        for w in (0, 15, 255):
            for ex in (False, True):
                f = hf.PriorityFrame(7)
                f.depends_on, f.stream_weight, f.exclusive = dep, w, ex
                g = models.parse_frames(f.serialize())[0]
                assert (g.depends_on, g.stream_weight, bool(g.exclusive)) == (dep, w, ex)
                n += 1
    return n


VALIDATORS = [v_priority_packing]


def shards(tier, seed):
    out = []
    combos = NONE_COMBOS if tier == 'thorough' else [(1, 1, 1), (0, 0, 0), (1, 0, 0),
                                                     (0, 1, 1)]
    for state in ('idle', 'open'):
        for combo in combos:
            out.append(Shard('prioritize/%s/args=%d%d%d' % ((state,) + combo),
                             h_prioritize(state, combo),
                             expect=['sent'] + (['refused'] if combo[0] or combo[1] else [])))
        out.append(Shard('prioritize_server/%s' % state, h_prioritize_server(state),
                         expect=['refused']))
        for client in (True, False):
            out.append(Shard('recv_priority/%s/%s' % ('client' if client else 'server', state),
                             h_recv_priority(client, state),
                             expect=['updated', 'self-dependency']))
    for combo in combos:
        if combo == (0, 0, 0):
            continue
        out.append(Shard('headers_priority/args=%d%d%d' % combo, h_headers_priority(combo),
                         expect=['sent']))
    for trailers in (False, True):
        out.append(Shard('recv_headers_priority/%s' % ('trailers' if trailers else 'request'),
                         h_recv_headers_priority(trailers),
                         expect=['updated', 'self-dependency']))
    out.append(Shard('headers_priority_server', h_headers_priority_server(),
                     expect=['refused']))
    # a prioritised request whose header block is fragmented still carries the priority
    # fields, in a first frame that fits the peer's frame-size limit (shared with C02)
    from props import c02
    out.append(Shard('fragmented_headers_priority', c02.h_fragment('headers+priority'),
                     expect=['frames=1', 'frames=2', 'frames=3']))
    return out
