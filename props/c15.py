"""C15 -- inbound header validation accepts exactly the conformant header blocks."""
from hpack import HeaderTuple, NeverIndexedHeaderTuple
from hyperframe import frame as hf

import h2.events
import h2.exceptions
from h2.errors import ErrorCodes

from engine.core import (check, note, sym_choice, s_and, s_or, s_not, s_eq, CTX)
from engine import h2h, ops, models, cellbytes as CB, hdr_oracle as O
from engine.cellbytes import CellBytes, sym_cells
from engine.models import sym_bytes
from engine.runner import Shard
from props.c27 import DecoderModel

MODELS = ['fmt_stub', 'HfSerialize', 'FrameFeed', 'HpackDec', 'CellBytes', 'FrozensetDeopt',
          'CharClassRe', 'LenBytes']
NAME_LENS = [0, 1, 2, 3, 4, 5, 6, 7, 9, 10, 16, 17]
BOUNDS = {
    'block positions': 'request (server), response, informational response, trailers (both '
                       'roles), pushed request (client), extended CONNECT request; the '
                       'pseudo-header fields of request / pushed request / extended CONNECT in '
                       'every order',
    'configurations': 'validate_inbound_headers x normalize_inbound_headers x header_encoding in '
                      '{None, utf-8}',
    'symbolic content': 'ONE header field with a fully symbolic name of length 0..7, 9, 10, 16, 17 '
                        '(every special field name has one of these lengths) and a fully symbolic '
                        'value of length 0..3, inserted first / after the pseudo-headers / last; '
                        'or the value of :path (0..2 cells), of te (8 cells), of :authority + host '
                        '(2 cells each), of two cookie fields (0..2 cells) made symbolic; every '
                        'cell ranges over all 256 byte values',
}
OUTSIDE = ['names longer than 17 bytes, values longer than 8, more than one symbolic field per '
           'block (two for host/authority and cookies)',
           'field names of length 14 when the name is symbolic (a symbolic name equal to '
           'content-length would need a symbolic decimal parser; C16 covers content-length)']
ASSUMPTIONS = ['the decoder may return any list of (name, value) byte strings (HpackDec model)',
               'where RFC 7540 is silent the oracle follows the property statement: te is '
               'compared case-insensitively; a request needs :authority or host']
VALIDATORS = [CB.validate_cellbytes, CB.validate_upper_re]

BASE = {
    'request': [(b':method', b'GET'), (b':scheme', b'https'), (b':authority', b'example.com'),
                (b':path', b'/'), (b'user-agent', b'x')],
    'request-host': [(b':method', b'GET'), (b':scheme', b'https'), (b':path', b'/'),
                     (b'host', b'example.com')],
    'response': [(b':status', b'200'), (b'server', b'x')],
    'informational': [(b':status', b'100'), (b'link', b'x')],
    'trailers': [(b'x-trailer', b'v')],
    'push': [(b':method', b'GET'), (b':scheme', b'https'), (b':authority', b'example.com'),
             (b':path', b'/pushed')],
    # RFC 8441 extended CONNECT
    'connect': [(b':method', b'CONNECT'), (b':protocol', b'websocket'), (b':scheme', b'https'),
                (b':path', b'/chat'), (b':authority', b'example.com'), (b'origin', b'x')],
}
KIND_OF = {'connect': 'request', 'request': 'request', 'request-host': 'request', 'response': 'response',
           'informational': 'informational', 'trailers': 'trailers', 'push': 'push'}


def _ctx(block, cfg):
    """endpoint in the state where the block is about to arrive; returns (ctx, frame)"""
    if block in ('request', 'request-host', 'connect'):
        ctx = ops.Ctx(False, cfg=cfg)
        f = hf.HeadersFrame(1)
    elif block == 'trailers':
        ctx = ops.Ctx(False, cfg=cfg)
        ops.run_op(ctx, ('HEADERS', 1, 'req', False))
        f = hf.HeadersFrame(1)
        f.flags.add('END_STREAM')
    elif block in ('response', 'informational'):
        ctx = ops.Ctx(True, cfg=cfg)
        ops.run_op(ctx, ('send_headers', 1, 'req', False))
        f = hf.HeadersFrame(1)
    else:
        ctx = ops.Ctx(True, cfg=cfg)
        ops.run_op(ctx, ('send_headers', 1, 'req', False))
        f = hf.PushPromiseFrame(1)
        f.promised_stream_id = 2
    ctx.me.data_to_send()
    f.flags.add('END_HEADERS')
    return ctx, f


def _pseudo_count(block):
    return sum(1 for n, _v in BASE[block] if n.startswith(b':'))


def build_headers(block, variant, nlen, vlen):
    base = list(BASE[block])
    if variant == 'extra':
        name = sym_cells('name', nlen)
        value = sym_cells('value', vlen)
        pos = sym_choice('position', ['first', 'after-pseudo', 'last'])
        i = {'first': 0, 'after-pseudo': _pseudo_count(block), 'last': len(base)}[pos]
        base.insert(i, (name, value))
    elif variant == 'order':
        # the pseudo-header fields in any order (solver-chosen permutation)
        import itertools
        k = _pseudo_count(block)
        perm = sym_choice('order', list(itertools.permutations(range(k))))
        base = [base[i] for i in perm] + base[k:]
    elif variant == 'path':
        base = [(n, sym_cells('path', vlen) if n == b':path' else v) for n, v in base]
    elif variant == 'te':
        base.append((b'te', sym_cells('te', vlen or 8)))
    elif variant == 'host-authority':
        base = [(n, sym_cells('authority', 2) if n == b':authority' else v) for n, v in base]
        base.append((b'host', sym_cells('host', 2)))
    elif variant == 'cookies':
        base.append((b'cookie', sym_cells('cookie1', vlen)))
        base.append((b'x-mid', b'1'))
        base.append((b'cookie', sym_cells('cookie2', 1)))
    return [HeaderTuple(n, v) for n, v in base]


def expected_delivery(headers, normalize):
    """the list the event must carry: the decoded block, cookies joined last when the
    normalisation is on"""
    if not normalize:
        return [(n, v) for n, v in headers], []
    plain, cookies = [], []
    for n, v in headers:
        if n == b'cookie':         # forks when the name is symbolic and 6 cells long
            cookies.append(v)
        else:
            plain.append((n, v))
    return plain, cookies


def make(block, cfg, variant, nlen, vlen):
    validate = cfg.get('validate_inbound_headers', True)
    normalize = cfg.get('normalize_inbound_headers', True)
    enc = cfg.get('header_encoding')

    def h():
        with h2h.native():
            ctx, f = _ctx(block, cfg)
        headers = build_headers(block, variant, nlen, vlen)
        if CTX.mode == 'sym':
            dec = DecoderModel(None)
            dec.decode = lambda data, raw=False: list(headers)
            ctx.me.decoder = dec
            f.data = sym_bytes('blen', 1, 200, default=10)
        else:
            import hpack
            f.data = hpack.Encoder().encode([(bytes(n), bytes(v)) for n, v in headers])
        conf = O.conformant(headers, KIND_OF[block])
        if enc:
            # the application asked for text: a field that is not valid UTF-8 cannot be
            # delivered as text and is refused as well
            conf = s_and(conf, *[CB.utf8_valid(O.cells(x)) for n, v in headers for x in (n, v)])
        out = models.Out(ctx.me)
        try:
            evs = h2h.deliver(ctx.me, [f])
        except h2.exceptions.ProtocolError as e:
            note('refused')
            if validate:
                check(s_not(conf), 'conformant-block-refused', None)
            else:
                # without validation only structural problems may refuse a block
                check(s_not(conf), 'block-refused-with-validation-off', None)
            check(e.error_code == ErrorCodes.PROTOCOL_ERROR, 'refusal-code', e.error_code)
            return
        note('delivered')
        if validate:
            check(conf, 'nonconformant-block-delivered', None)
        ev = evs[0]
        got = ev.headers
        plain, cookies = expected_delivery(headers, normalize)
        exp_len = len(plain) + (1 if cookies else 0)
        check(len(got) == exp_len, 'delivered-length', (len(got), exp_len))
        if len(got) != exp_len:
            return
        terms = []
        for (gn, gv), (en, ev_) in zip(got, plain):
            terms.append(_same_text(gn, en, enc))
            terms.append(_same_text(gv, ev_, enc))
        if cookies:
            gn, gv = got[-1]
            terms.append(_same_text(gn, b'cookie', enc))
            joined = cookies[0]
            for c in cookies[1:]:
                joined = joined + b'; ' + c
            terms.append(_same_text(gv, joined, enc))
            check(isinstance(got[-1], NeverIndexedHeaderTuple), 'joined-cookie-indexable', None)
        check(s_and(*terms) if terms else True, 'delivered-headers-differ', None)
        if enc:
            for gn, gv in got:
                check(_is_text(gn) and _is_text(gv), 'delivered-not-text', None)
    return h


def _is_text(x):
    from crosshair.tracers import NoTracing
    with NoTracing():
        if type(x) is CellBytes:
            return x.text
        return isinstance(x, str)


def _same_text(got, exp, enc):
    """got equals exp (exp: bytes / CellBytes); with an encoding `got` is the decoded text"""
    if enc:
        return O.eqx(got, exp) if True else False
    return O.eqx(got, exp)


CFGS = []
for v in (True, False):
    for n in (True, False):
        for e in (None, 'utf-8'):
            CFGS.append({'validate_inbound_headers': v, 'normalize_inbound_headers': n,
                         'header_encoding': e})


def cfg_name(cfg):
    return 'val=%d,norm=%d,enc=%s' % (cfg['validate_inbound_headers'],
                                      cfg['normalize_inbound_headers'], cfg['header_encoding'])


def shards(tier, seed):
    out = []
    blocks = ['request', 'request-host', 'response', 'informational', 'trailers', 'push']
    cfgs = CFGS if tier == 'thorough' else [CFGS[0], CFGS[1], CFGS[2], CFGS[4]]
    nlens = NAME_LENS if tier == 'thorough' else [0, 1, 2, 4, 5, 6, 7, 10, 17]
    vlens = [0, 1, 2, 3] if tier == 'thorough' else [0, 2]
    for block in ('request', 'push', 'connect'):
        out.append(Shard('%s/%s/pseudo-header-order' % (block, cfg_name(CFGS[0])),
                         make(block, CFGS[0], 'order', 0, 0), twin=False, expect=['delivered']))
    for nlen in (7, 9):
        out.append(Shard('connect/%s/extra/name=%d/value=2' % (cfg_name(CFGS[0]), nlen),
                         make('connect', CFGS[0], 'extra', nlen, 2), budget=90, twin=False))
    for block in blocks:
        for cfg in cfgs:
            if tier == 'quick' and cfg is not CFGS[0] and block not in ('request', 'response'):
                continue
            cn = cfg_name(cfg)
            for nlen in nlens:
                for vlen in vlens:
                    out.append(Shard('%s/%s/extra/name=%d/value=%d' % (block, cn, nlen, vlen),
                                     make(block, cfg, 'extra', nlen, vlen), budget=90,
                                     twin=False))
            if block in ('request', 'push'):
                for vlen in (0, 1, 2):
                    out.append(Shard('%s/%s/path/value=%d' % (block, cn, vlen),
                                     make(block, cfg, 'path', 0, vlen), twin=False))
                out.append(Shard('%s/%s/host-authority' % (block, cn),
                                 make(block, cfg, 'host-authority', 0, 0), twin=False))
            out.append(Shard('%s/%s/te' % (block, cn), make(block, cfg, 'te', 0, 0), twin=False))
            if cfg is CFGS[0] and (tier == 'thorough' or block in ('request', 'trailers')):
                for vlen in ((7, 9, 10) if tier == 'thorough' else (9,)):
                    out.append(Shard('%s/%s/te/value=%d' % (block, cn, vlen),
                                     make(block, cfg, 'te', 0, vlen), twin=False))
            for vlen in (0, 1, 2):
                out.append(Shard('%s/%s/cookies/value=%d' % (block, cn, vlen),
                                 make(block, cfg, 'cookies', 0, vlen), twin=False))
    return out
