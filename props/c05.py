"""C05 -- automatic window management never deadlocks and never over-credits."""
from hyperframe import frame as hf

import h2.events
import h2.exceptions
from h2.errors import ErrorCodes
from h2.settings import SettingCodes
from h2.windows import WindowManager

from engine.core import (sym_int, sym_bool, check, note, assume_z, s_and, s_or, s_not, s_le,
                         s_lt, s_eq, s_ite, s_min, s_between, s_implies, INT31)
from engine import h2h, models
from engine.models import sym_bytes
from engine.runner import Shard

MODELS = ['fmt_stub', 'HfSerialize', 'FrameFeed', 'LenBytes']
BOUNDS = {
    'max_window_size': '0..2^31-1 (symbolic)',
    'current_window_size': '-2^31..max (symbolic)',
    '_bytes_processed P, unacknowledged received bytes U (ghost)': '>= 0 (symbolic) with '
    'cur + P + U == max',
    'step sizes': 'DATA flow-controlled length 0..2^24, acknowledged size 0..U, settings '
                  'old/new 0..2^31-1 (all symbolic)',
    'history length': 'unbounded: each step is decided from an arbitrary state satisfying the '
                      'inductive invariant',
}
OUTSIDE = ['applications that acknowledge more bytes than they received']
ASSUMPTIONS = [
    'inductive invariant per window manager: cur + P + U == max, P >= 0, U >= 0, '
    '0 <= max <= 2^31-1, max - cur = P + U <= 2^31-1 (window_consumed leaves cur >= 0, every '
    'other step shrinks or keeps max - cur), and (U == 0 and max > 0 implies cur > 0); where U (ghost) = flow-controlled bytes received and not yet passed to '
    'acknowledge_received_data.  It is established by WindowManager.__init__ (cur == max, P == U '
    '== 0) and re-proved by every step harness below',
    'manual/ shards: the application additionally calls increment_flow_control_window.  '
    'Invariant there: cur <= max <= cur + P + U, 0 <= max <= 2^31-1, max - cur <= 2^31-1, '
    'P == 0 or 2P + 2 <= max (acknowledged bytes that did not trigger an update stayed below '
    'max // 2), max >= the acknowledged INITIAL_WINDOW_SIZE; assumed before and re-proved '
    'after window_consumed, process_bytes, window_opened, acknowledge_received_data, DATA, '
    'increment_flow_control_window and the SETTINGS ACK',
    'liveness is decided as a state predicate: U == 0 and max > 0 implies cur > 0 after every '
    'step (then no acknowledgement is outstanding that could still open the window)',
]


def _sym_wm(tag, wm, manual=False):
    """manual=False: the application only ever uses acknowledge_received_data
    (cur + P + U == max).  manual=True: it also calls increment_flow_control_window, which
    raises cur (and max with it) without touching P and U: max <= cur + P + U, cur <= max."""
    mx = sym_int(tag + '_max', 0, INT31, default=65535)
    cur = sym_int(tag + '_cur', -INT31 - 1, INT31, default=65535)
    p = sym_int(tag + '_P', 0, 2 ** 40 if manual else 2 ** 33, default=0)
    u = sym_int(tag + '_U', 0, 2 ** 40 if manual else 2 ** 33, default=0)
    live = s_implies(s_and(s_eq(u, 0), s_lt(0, mx)), s_lt(0, cur))
    if manual:
        # J: bytes acknowledged without an update stayed below the threshold max // 2
        assume_z(s_and(s_le(cur, mx), s_le(mx, cur + p + u), s_le(mx - cur, INT31), live,
                       s_or(s_eq(p, 0), s_le(2 * p + 2, mx))))
    else:
        assume_z(s_and(s_eq(cur + p + u, mx), s_le(p + u, INT31), live))
    h2h.Adapter.set_wm(wm, cur, mx, p)
    return cur, mx, p, u


def _inv(wm, u, tag, manual=False):
    c, m, p = wm.current_window_size, wm.max_window_size, wm._bytes_processed
    rel = s_and(s_le(c, m), s_le(m, c + p + u)) if manual else s_eq(c + p + u, m)
    check(s_and(rel, s_le(0, p), s_le(0, m), s_le(m, INT31)),
          tag + '-invariant', (c, m, p, u))
    check(s_and(s_le(c, m), s_le(c, INT31)), tag + '-window-above-max', (c, m))
    check(s_le(m - c, INT31) if manual else s_le(p + u, INT31),
          tag + '-invariant-outstanding', (c, m, p, u))
    if manual:
        check(s_or(s_eq(p, 0), s_le(2 * p + 2, m)), tag + '-invariant-threshold', (p, m))
    check(s_implies(s_and(s_eq(u, 0), s_lt(0, m)), s_lt(0, c)), tag + '-stalled',
          (c, m, p, u))


def h_wm_consume(manual=False):
    def h():
        wm = WindowManager(0)
        cur, mx, p, u = _sym_wm('w', wm, manual)
        size = sym_int('size', 0, 2 ** 24, default=5)
        try:
            wm.window_consumed(size)
        except h2.exceptions.FlowControlError:
            note('overrun')
            check(s_lt(cur, size), 'consume-rejected-fitting', (cur, size))
        else:
            note('consumed')
            check(s_le(size, cur), 'consume-overrun-accepted', (cur, size))
            _inv(wm, u + size, 'consume', manual)
    return h


def h_wm_process(manual=False):
    def h():
        wm = WindowManager(0)
        cur, mx, p, u = _sym_wm('w', wm, manual)
        k = sym_int('ack', 0, 2 ** 40 if manual else 2 ** 33, default=5)
        assume_z(s_le(k, u))
        inc = wm.process_bytes(k)
        if inc:
            note('update')
            check(s_between(1, inc, INT31), 'increment-range', inc)
            check(s_le(inc, p + k), 'increment-exceeds-acknowledged', (inc, p, k))
            check(wm.current_window_size == cur + inc, 'increment-not-applied', None)
        else:
            note('no-update')
            check(wm.current_window_size == cur, 'window-moved-without-update', None)
        _inv(wm, u - k, 'process', manual)
    return h


def h_wm_open():
    """manual credit (increment_flow_control_window / a positive settings delta)"""
    def h():
        wm = WindowManager(0)
        cur, mx, p, u = _sym_wm('w', wm, True)
        size = sym_int('size', 1, INT31, default=5)
        try:
            wm.window_opened(size)
        except h2.exceptions.FlowControlError:
            note('overflow')
            check(s_lt(INT31, cur + size), 'open-rejected-fitting', (cur, size))
            check(s_and(wm.current_window_size == cur, wm.max_window_size == mx),
                  'open-raise-changes-window', None)
        else:
            note('opened')
            check(s_le(cur + size, INT31), 'open-overflow-accepted', (cur, size))
            check(wm.current_window_size == cur + size, 'open-not-applied', None)
            _inv(wm, u, 'open', True)
    return h


def _witness(client):
    c, s = h2h.pair()
    c.send_headers(1, h2h.REQ_POST)
    h2h.pump(c, s)
    if client:
        s.send_headers(1, h2h.RESP)
        h2h.pump(c, s)
    me = c if client else s
    me.max_inbound_frame_size = 2 ** 24 - 1
    return me


def h_ack_glue(client, manual=False):
    """acknowledge_received_data on the connection + an open stream"""
    def h():
        with h2h.native():
            me = _witness(client)
        A = h2h.Adapter
        cw, sw = A.conn_wm(me), A.stream_wm(me, 1)
        cc, cm, cp, cu = _sym_wm('conn', cw, manual)
        sc, sm, sp, su = _sym_wm('s1', sw, manual)
        assume_z(s_le(su, cu))
        k = sym_int('ack', 0, 2 ** 40 if manual else 2 ** 33, default=40000)
        assume_z(s_le(k, su))
        out = models.Out(me)
        me.acknowledge_received_data(k, 1)
        ci, si = 0, 0
        for f in out.frames():
            check(isinstance(f, hf.WindowUpdateFrame) and f.stream_id in (0, 1),
                  'ack-unexpected-frame', type(f).__name__)
            if isinstance(f, hf.WindowUpdateFrame):
                check(s_between(1, f.window_increment, INT31), 'increment-range', None)
                if f.stream_id == 0:
                    ci = ci + f.window_increment
                else:
                    si = si + f.window_increment
        note('acked')
        check(s_and(s_le(ci, cp + k), s_le(si, sp + k)), 'increment-exceeds-acknowledged',
              (ci, si, k))
        check(s_and(cw.current_window_size == cc + ci, sw.current_window_size == sc + si),
              'window-differs-from-emitted-updates', None)
        _inv(cw, cu - k, 'conn', manual)
        _inv(sw, su - k, 'stream', manual)
    return h


def h_increment_glue(client, on_stream):
    """a manual increment_flow_control_window next to automatic management: refused
    exactly on overflow, otherwise the general invariant survives"""
    def h():
        with h2h.native():
            me = _witness(client)
        A = h2h.Adapter
        cw, sw = A.conn_wm(me), A.stream_wm(me, 1)
        cc, cm, cp, cu = _sym_wm('conn', cw, True)
        sc, sm, sp, su = _sym_wm('s1', sw, True)
        inc = sym_int('inc', 1, INT31, default=100)
        out = models.Out(me)
        target = sc if on_stream else cc
        try:
            me.increment_flow_control_window(inc, stream_id=1 if on_stream else None)
        except h2.exceptions.FlowControlError:
            note('overflow')
            check(s_lt(INT31, target + inc), 'increment-rejected-fitting', (target, inc))
            check(out.nbytes() == 0, 'raise-emits', None)
        else:
            note('credited')
            check(s_le(target + inc, INT31), 'increment-overflow-accepted', (target, inc))
        _inv(cw, cu, 'conn', True)
        _inv(sw, su, 'stream', True)
    return h


def h_reset_step(client):
    """resetting a stream that holds received but unacknowledged DATA credits nothing: those
    bytes are still the application's to acknowledge (acknowledge_received_data works on a
    closed stream), so crediting them here would count them twice"""
    def h():
        with h2h.native():
            me = _witness(client)
        A = h2h.Adapter
        cw, sw = A.conn_wm(me), A.stream_wm(me, 1)
        cc, cm, cp, cu = _sym_wm('conn', cw)
        sc, sm, sp, su = _sym_wm('s1', sw)
        assume_z(s_le(su, cu))
        out = models.Out(me)
        me.reset_stream(1)
        note('reset')
        fr = out.frames()
        check(len(fr) == 1 and isinstance(fr[0], hf.RstStreamFrame), 'reset-emits-other-frames',
              [h2h.frame_sig(f) for f in fr])
        check(s_and(cw.current_window_size == cc, cw._bytes_processed == cp,
                    cw.max_window_size == cm), 'reset-credits-connection-window',
              (cw.current_window_size, cw._bytes_processed))
        # ... and the later acknowledgement of those bytes is credited exactly once
        k = sym_int('ack', 0, 2 ** 33, default=40000)
        assume_z(s_le(k, cu))
        out2 = models.Out(me)
        me.acknowledge_received_data(k, 1)
        ci = 0
        for f in out2.frames():
            check(isinstance(f, hf.WindowUpdateFrame) and f.stream_id == 0,
                  'ack-unexpected-frame', type(f).__name__)
            if isinstance(f, hf.WindowUpdateFrame):
                ci = ci + f.window_increment
        check(s_le(ci, cp + k), 'increment-exceeds-acknowledged', (ci, k))
        _inv(cw, cu - k, 'conn')
    return h


def h_ack_gone_stream(client):
    """acknowledging data of a stream that is closed: the connection window still follows
    the rules"""
    def h():
        with h2h.native():
            me = _witness(client)
            me.reset_stream(1)
            me.data_to_send()
        cw = h2h.Adapter.conn_wm(me)
        cc, cm, cp, cu = _sym_wm('conn', cw)
        k = sym_int('ack', 0, 2 ** 33, default=40000)
        assume_z(s_le(k, cu))
        out = models.Out(me)
        me.acknowledge_received_data(k, 1)
        ci = 0
        for f in out.frames():
            check(isinstance(f, hf.WindowUpdateFrame) and f.stream_id == 0,
                  'ack-unexpected-frame', type(f).__name__)
            if isinstance(f, hf.WindowUpdateFrame):
                ci = ci + f.window_increment
        note('acked')
        check(s_le(ci, cp + k), 'increment-exceeds-acknowledged', (ci, k))
        check(cw.current_window_size == cc + ci, 'window-differs-from-emitted-updates', None)
        _inv(cw, cu - k, 'conn')
    return h


def h_data(client, manual=False):
    """received DATA on an open stream: both managers consume, nothing is credited"""
    def h():
        with h2h.native():
            me = _witness(client)
        A = h2h.Adapter
        cw, sw = A.conn_wm(me), A.stream_wm(me, 1)
        cc, cm, cp, cu = _sym_wm('conn', cw, manual)
        sc, sm, sp, su = _sym_wm('s1', sw, manual)
        data = sym_bytes('n', 0, 2 ** 24 - 300, default=10)
        pad = sym_int('pad', 0, 255, default=2)
        f = hf.DataFrame(1)
        f.data = data
        f.flags.add('PADDED')
        f.pad_length = pad
        fcl = len(data) + pad + 1
        out = models.Out(me)
        try:
            h2h.deliver(me, [f])
        except h2.exceptions.FlowControlError:
            note('overrun')
            check(s_or(s_lt(cc, fcl), s_lt(sc, fcl)), 'data-rejected-fitting', None)
        else:
            note('received')
            check(out.nbytes() == 0, 'data-emits', None)
            _inv_nolive(cw, cu + fcl, 'conn', manual)
            _inv_nolive(sw, su + fcl, 'stream', manual)
    return h


def _inv_nolive(wm, u, tag, manual=False):
    c, m, p = wm.current_window_size, wm.max_window_size, wm._bytes_processed
    rel = s_and(s_le(c, m), s_le(m, c + p + u), s_le(m - c, INT31)) if manual else \
        s_eq(c + p + u, m)
    check(s_and(rel, s_le(0, p), s_le(0, m), s_le(m, INT31)),
          tag + '-invariant', (c, m, p, u))


def h_data_closed(client, how):
    """DATA on a closed / reset stream is acknowledged by the library on the user's
    behalf: U does not grow, the whole flow-controlled length is credited back"""
    def h():
        with h2h.native():
            me = _witness(client)
            if how == 'reset':
                me.reset_stream(1)
            else:   # ended normally in both directions and collected
                c = me
                peer_role_client = not client
                # finish the exchange through a scratch peer built from the same history
                if client:
                    me.end_stream(1)
                    f = hf.DataFrame(1)
                    f.flags.add('END_STREAM')
                    me.receive_data(f.serialize())
                else:
                    f = hf.DataFrame(1)
                    f.flags.add('END_STREAM')
                    me.receive_data(f.serialize())
                    me.send_headers(1, h2h.RESP, end_stream=True)
                me.open_outbound_streams
                me.open_inbound_streams
            me.data_to_send()
        cw = h2h.Adapter.conn_wm(me)
        cc, cm, cp, cu = _sym_wm('conn', cw)
        data = sym_bytes('n', 0, 2 ** 24 - 300, default=10)
        pad = sym_int('pad', 0, 255, default=2)
        f = hf.DataFrame(1)
        f.data = data
        f.flags.add('PADDED')
        f.pad_length = pad
        fcl = len(data) + pad + 1
        out = models.Out(me)
        try:
            h2h.deliver(me, [f])
        except h2.exceptions.FlowControlError:
            note('overrun')
            check(s_lt(cc, fcl), 'data-rejected-fitting', None)
        except h2.exceptions.ProtocolError:
            note('conn-error')       # stream ended normally: STREAM_CLOSED connection error
            check(how == 'ended', 'closed-data-connection-error', None)
        else:
            note('absorbed')
            ci = 0
            for fr in out.frames():
                if isinstance(fr, hf.WindowUpdateFrame):
                    check(fr.stream_id == 0 and True, 'closed-wu-stream', None)
                    check(s_between(1, fr.window_increment, INT31), 'increment-range', None)
                    ci = ci + fr.window_increment
            check(s_le(ci, cp + fcl), 'increment-exceeds-acknowledged', None)
            check(cw.current_window_size == cc - fcl + ci,
                  'window-differs-from-emitted-updates', None)
            _inv(cw, cu, 'conn')
    return h


def h_settings_ack(client, manual=False, reserved=False):
    """local INITIAL_WINDOW_SIZE change acknowledged by the peer; reserved=True: the stream
    is one the client has been promised and that is not open yet"""
    def h():
        with h2h.native():
            if reserved:
                c, s = h2h.pair()
                c.send_headers(1, h2h.REQ, end_stream=True)
                h2h.pump(c, s)
                s.push_stream(1, 2, h2h.REQ)
                h2h.pump(c, s)
                me = c
                h2h.Adapter.set_wm(h2h.Adapter.stream_wm(me, 1), 0, 0, 0)
            else:
                me = _witness(client)
        sid = 2 if reserved else 1
        sw = h2h.Adapter.stream_wm(me, sid)
        old = sym_int('old', 0, INT31, default=65535)
        new = sym_int('new', 0, INT31, default=10)
        sc, sm, sp, su = _sym_wm('s1', sw, manual)
        if reserved:
            # no DATA can have arrived on a stream that is still reserved
            assume_z(s_and(s_eq(sp, 0), s_eq(su, 0)))
        if manual:
            # manual increments only ever raise the maximum above the acknowledged setting
            assume_z(s_le(old, sm))
        else:
            assume_z(s_eq(sm, old))      # the stream's maximum is the acknowledged setting
        h2h.Adapter.set_local_setting(me, SettingCodes.INITIAL_WINDOW_SIZE, old)
        me.update_settings({SettingCodes.INITIAL_WINDOW_SIZE: new})
        ack = hf.SettingsFrame(0)
        ack.flags.add('ACK')
        out = models.Out(me)
        try:
            h2h.deliver(me, [ack])
        except h2.exceptions.FlowControlError:
            note('overflow')
            check(s_lt(INT31, sc + (new - old)), 'ack-error-without-overflow', None)
            return
        note('applied')
        si = 0
        for fr in out.frames():
            if isinstance(fr, hf.WindowUpdateFrame) and fr.stream_id == sid:
                si = si + fr.window_increment
        check(sw.current_window_size == sc + (new - old) + si, 'settings-window', None)
        if manual:
            check(s_le(new, sw.max_window_size), 'settings-max-below-setting',
                  (sw.max_window_size, new))
        else:
            check(sw.max_window_size == new, 'settings-max', (sw.max_window_size, new))
        _inv(sw, su, 'stream', manual)
    return h


def shards(tier, seed):
    out = [Shard('wm/window_consumed', h_wm_consume(), expect=['consumed', 'overrun']),
           Shard('wm/process_bytes', h_wm_process(), expect=['update', 'no-update']),
           Shard('manual/wm/window_consumed', h_wm_consume(True),
                 expect=['consumed', 'overrun']),
           Shard('manual/wm/process_bytes', h_wm_process(True),
                 expect=['update', 'no-update']),
           Shard('manual/wm/window_opened', h_wm_open(), expect=['opened', 'overflow'])]
    for client in (True, False):
        r = 'client' if client else 'server'
        out.append(Shard('acknowledge/%s' % r, h_ack_glue(client), budget=120,
                         expect=['acked']))
        out.append(Shard('acknowledge_closed_stream/%s' % r, h_ack_gone_stream(client),
                         expect=['acked']))
        out.append(Shard('reset_then_acknowledge/%s' % r, h_reset_step(client),
                         expect=['reset']))
        out.append(Shard('recv_data/%s' % r, h_data(client), expect=['received', 'overrun']))
        out.append(Shard('data_on_reset_stream/%s' % r, h_data_closed(client, 'reset'),
                         expect=['absorbed', 'overrun']))
        out.append(Shard('data_on_ended_stream/%s' % r, h_data_closed(client, 'ended')))
        out.append(Shard('settings_ack/%s' % r, h_settings_ack(client), expect=['applied']))
        if client:
            out.append(Shard('settings_ack_reserved/%s' % r,
                             h_settings_ack(client, reserved=True), expect=['applied']))
        out.append(Shard('manual/acknowledge/%s' % r, h_ack_glue(client, True), budget=120,
                         expect=['acked']))
        out.append(Shard('manual/recv_data/%s' % r, h_data(client, True),
                         expect=['received', 'overrun']))
        out.append(Shard('manual/settings_ack/%s' % r, h_settings_ack(client, True),
                         expect=['applied', 'overflow']))
        for on_stream in (False, True):
            out.append(Shard('manual/increment/%s/%s' % (r, 'stream' if on_stream else 'conn'),
                             h_increment_glue(client, on_stream),
                             expect=['credited', 'overflow']))
    return out
