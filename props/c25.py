"""C25 -- h2c upgrade hands over settings and stream 1 consistently."""
import base64

from hyperframe import frame as hf
from crosshair.core import register_patch
from crosshair.tracers import NoTracing

import h2.connection
import h2.events
import h2.exceptions
import h2.settings
from h2.settings import SettingCodes

from engine.core import (check, note, sym_int, sym_choice, s_eq, s_and, INT31, INT32, CTX,
                         HarnessError)
from engine import h2h, ops, models
from engine.runner import Shard
from props.c11 import KNOWN, VALID, EncoderModel, _name

MODELS = ['fmt_stub', 'HfSerialize', 'FrameFeed', 'SettingsBlob']
BOUNDS = {
    'client settings': 'all seven known settings symbolic in their valid ranges (as '
                       'initial_values of the client\'s local Settings), plus the library '
                       'defaults',
    'continuation': 'response on stream 1, body attempts on stream 1 from both sides, next '
                    'stream ids, GOAWAY last-stream-id, late frames on stream 1 after it was '
                    'answered and collected; arbitrary longer continuations are the "upgrade" '
                    'slice of C06/C07/C08/C10/C29',
}
OUTSIDE = ['the byte layout of the HTTP2-Settings token (SettingsFrame.serialize_body / '
           'parse_body + base64url are an identity on the settings mapping: validated on '
           'boundary values with the real functions at every run, and - shard '
           'handover/token-alphabet - through h2\'s real upgrade path for every base64 symbol at '
           'five token positions; that shard is a native loop, not a solver query)']
ASSUMPTIONS = ['SettingsBlob model: serialize_body -> urlsafe_b64encode -> urlsafe_b64decode -> '
               'parse_body is the identity on {id: value} for ids < 2^16 and values < 2^32']


class SettingsBlob:
    def __init__(self, settings):
        self.settings = dict(settings)

    def __ch_pytype__(self):
        return bytes

    def __bool__(self):
        return True

    def __len__(self):
        return 6 * len(self.settings)


_real_body = hf.SettingsFrame.serialize_body
_real_parse = hf.SettingsFrame.parse_body


def _m_serialize_body(self):
    return SettingsBlob(self.settings)


def _is_blob(x):
    with NoTracing():
        return type(x) is SettingsBlob


def _m_parse_body(self, data):
    if _is_blob(data):
        self.settings.update(data.settings)
        self.body_len = 6 * len(data.settings)
        return None
    return _real_parse(self, data)


_b64e = base64.urlsafe_b64encode
_b64d = base64.urlsafe_b64decode


def _m_b64d(s, *a):
    if _is_blob(s):
        return s
    return _b64d(s)


def _m_b64e2(s, *a):
    if _is_blob(s):
        return s
    return _b64e(s)


register_patch(hf.SettingsFrame.serialize_body, _m_serialize_body)
register_patch(hf.SettingsFrame.parse_body, _m_parse_body)
register_patch(base64.urlsafe_b64encode, _m_b64e2)
register_patch(base64.urlsafe_b64decode, _m_b64d)


def v_blob_identity():
    n = 0
    for vals in ({1: 0, 2: 1, 3: 0, 4: 0, 5: 16384, 6: 0, 8: 0},
                 {1: 2 ** 32 - 1, 2: 0, 3: 2 ** 32 - 1, 4: 2 ** 31 - 1, 5: 2 ** 24 - 1,
                  6: 2 ** 32 - 1, 8: 1}, {4: 65535}, {}):
        f = hf.SettingsFrame(0)
        f.settings = dict(vals)
        token = base64.urlsafe_b64encode(f.serialize_body())
        g = hf.SettingsFrame(0)
        g.parse_body(base64.urlsafe_b64decode(token))
        if g.settings != vals:
            raise HarnessError("SettingsBlob contract: %r -> %r" % (vals, g.settings))
        n += 1
    return n


VALIDATORS = [v_blob_identity]


def _client(symbolic_settings):
    c = h2h.conn(True)
    vals = {}
    if symbolic_settings:
        for k in KNOWN:
            lo, hi = VALID[k]
            vals[k] = sym_int('c_' + _name(k), lo, hi, default=lo if k != 4 else 65535)
        c.local_settings = h2.settings.Settings(client=True, initial_values=dict(vals))
    return c, vals


def h_settings_handover(symbolic_settings):
    def h():
        c, vals = _client(symbolic_settings)
        s = h2h.conn(False)
        s.encoder = EncoderModel()
        cout = models.Out(c)
        token = c.initiate_upgrade_connection()
        check(token is not None, 'client-returns-no-token', None)
        cframes = cout.frames() if CTX.mode == 'sym' else models.parse_frames(
            bytes(c._data_to_send))
        check(len(cframes) == 1 and isinstance(cframes[0], hf.SettingsFrame),
              'client-preface-frames', [h2h.frame_sig(f) for f in cframes])
        sout = models.Out(s)
        s.initiate_upgrade_connection(token)
        note('upgraded')
        sframes = sout.frames()
        check(len(sframes) == 1 and isinstance(sframes[0], hf.SettingsFrame) and
              'ACK' not in sframes[0].flags, 'server-acknowledges-header-settings',
              [h2h.frame_sig(f) for f in sframes])
        for k in KNOWN:
            try:
                cv = c.local_settings[k]
            except KeyError:
                cv = None
            try:
                sv = s.remote_settings[k]
            except KeyError:
                sv = None
            if cv is None or sv is None:
                check(cv is sv, 'setting-presence-differs:' + _name(k), (cv, sv))
            else:
                check(s_eq(cv, sv), 'server-view-differs:' + _name(k), (cv, sv))
        check(s_eq(s.max_outbound_frame_size, c.local_settings.max_frame_size),
              'server-max-outbound-frame-size-stale', None)
        check(s_eq(s.encoder.header_table_size, c.local_settings.header_table_size),
              'server-encoder-table-size-stale', None)
        check(s_eq(s.streams[1].outbound_flow_control_window,
                   c.local_settings.initial_window_size), 'stream-1-window', None)
        check(s_eq(s.streams[1].max_outbound_frame_size, c.local_settings.max_frame_size),
              'stream-1-max-outbound-frame-size-stale', None)
        # INITIAL_WINDOW_SIZE is about streams: both connection windows stay at 65535
        check(s_and(s_eq(s.outbound_flow_control_window, 65535),
                    s_eq(c.outbound_flow_control_window, 65535),
                    s_eq(s.inbound_flow_control_window, 65535)),
              'connection-window-changed-by-upgrade',
              (s.outbound_flow_control_window, c.outbound_flow_control_window))
        # the client's settings frame (first frame of its preface) carries the same values
        if cframes and isinstance(cframes[0], hf.SettingsFrame):
            for k in KNOWN:
                try:
                    cv = c.local_settings[k]
                except KeyError:
                    continue
                check(int(k) in [int(x) for x in cframes[0].settings] and
                      s_eq(cframes[0].settings[k], cv), 'preface-settings:' + _name(k), None)
    return h


def h_invalid_header_settings():
    """an HTTP2-Settings value carrying an out-of-range setting is refused with the code
    RFC 7540 6.5.2 mandates for that setting (the same rule as for a SETTINGS frame)"""
    from props.c12 import expected_code
    from engine.core import INT32

    def h():
        code = sym_choice('setting', [1, 2, 3, 4, 5, 6, 8])
        val = sym_int('value', 0, INT32, default=2 ** 31)
        f = hf.SettingsFrame(0)
        f.settings = {code: val}
        token = base64.urlsafe_b64encode(f.serialize_body())
        s = h2h.conn(False)
        exp = expected_code(code, val)
        try:
            s.initiate_upgrade_connection(token)
        except h2.exceptions.ProtocolError as e:
            note('refused')
            check(exp != 0, 'valid-header-settings-refused', (code, val))
            check(e.error_code == exp, 'header-settings-error-code', (code, val, e.error_code,
                                                                      exp))
        else:
            note('upgraded')
            check(exp == 0, 'invalid-header-settings-accepted', (code, val))
            check(s_eq(s.remote_settings[code], val), 'header-setting-not-applied', None)
    return h


def h_token_alphabet():
    """SettingsBlob contract, checked through h2's REAL upgrade path (the base64url codec is
    C code the symbolic engine cannot enter, so the symbolic shards carry the settings mapping
    through it unchanged): for each of the 64 base64 symbols, a client setting whose coding
    puts that symbol at five token positions must reach the server unchanged"""
    def h():
        bad = None
        with h2h.native():
            for x in range(64):
                v = (x << 24) | (x << 18) | (x << 12) | (x << 6) | x
                for code in (3, 6):
                    c = h2h.conn(True)
                    c.local_settings = h2.settings.Settings(client=True,
                                                            initial_values={code: v})
                    s = h2h.conn(False)
                    try:
                        token = c.initiate_upgrade_connection()
                        s.initiate_upgrade_connection(token)
                        got = s.remote_settings.get(code)
                    except Exception as e:      # noqa
                        got = 'raised %s' % type(e).__name__
                    if got != v and bad is None:
                        bad = (code, v, got, token)
        note('checked')
        check(bad is None, 'server-view-differs:token-alphabet', bad)
    return h


def _upgraded_pair():
    c = h2h.conn(True)
    s = h2h.conn(False)
    token = c.initiate_upgrade_connection()
    s.initiate_upgrade_connection(token)
    evs_c, evs_s = h2h.pump(c, s)
    return c, s


def h_stream_one():
    def h():
        with h2h.native():
            c, s = _upgraded_pair()
        note('upgraded')
        check(c.get_next_available_stream_id() == 3, 'client-next-id', None)
        check(s.get_next_available_stream_id() == 2, 'server-next-id', None)
        check(c.open_outbound_streams == 1 and s.open_inbound_streams == 1, 'stream-1-count',
              None)
        # neither side can send a request body on stream 1
        out_c = models.Out(c)
        body = sym_choice('body_call', ['send_data', 'send_data+end', 'empty+end', 'end_stream',
                                        'trailers'])
        try:
            if body == 'send_data':
                c.send_data(1, b'x')
            elif body == 'send_data+end':
                c.send_data(1, b'x', end_stream=True)
            elif body == 'empty+end':
                c.send_data(1, b'', end_stream=True)
            elif body == 'end_stream':
                c.end_stream(1)
            else:
                c.send_headers(1, h2h.TRAILERS, end_stream=True)
        except h2.exceptions.ProtocolError:
            pass
        else:
            check(False, 'client-sends-request-body-on-stream-1:' + body, None)
        check(out_c.nbytes() == 0, 'refused-request-body-emits:' + body, None)
        which = sym_choice('scenario', ['respond', 'goaway', 'late-window-update',
                                        'client-body-frame'])
        if which == 'respond':
            with h2h.native():
                c, s = _upgraded_pair()
                s.send_headers(1, h2h.RESP)
                s.send_data(1, b'body', end_stream=True)
                wire = s.data_to_send()
            evs = c.receive_data(wire)
            names = h2h.ev_names(evs)
            check(names == ['ResponseReceived', 'DataReceived', 'StreamEnded'],
                  'client-does-not-receive-response', names)
        elif which == 'goaway':
            with h2h.native():
                c, s = _upgraded_pair()
            out = models.Out(s)
            s.close_connection()
            fr = out.frames()
            check(len(fr) == 1 and fr[0].last_stream_id == 1, 'server-goaway-last-stream-id',
                  fr[0].last_stream_id if fr else None)
        elif which == 'late-window-update':
            with h2h.native():
                c, s = _upgraded_pair()
                s.send_headers(1, h2h.RESP, end_stream=True)
                s.data_to_send()
                s.open_inbound_streams
            f = hf.WindowUpdateFrame(1)
            f.window_increment = sym_int('inc', 1, INT31, default=10)
            try:
                evs = h2h.deliver(s, [f])
            except h2.exceptions.ProtocolError as e:
                check(False, 'late-window-update-on-stream-1-is-an-error', type(e).__name__)
            g = hf.HeadersFrame(1)
            g.flags.add('END_HEADERS')
            import hpack
            with h2h.native():
                g.data = hpack.Encoder().encode(h2h.REQ)
            try:
                evs = h2h.deliver(s, [g])
            except h2.exceptions.ProtocolError:
                pass
            else:
                check(not any(isinstance(e, h2.events.RequestReceived) for e in evs),
                      'stream-1-reopened-by-headers', h2h.ev_names(evs))
        else:
            with h2h.native():
                c, s = _upgraded_pair()
            d = hf.DataFrame(1)
            d.data = b'late request body'
            try:
                evs = h2h.deliver(s, [d])
            except h2.exceptions.ProtocolError:
                evs = []
            check(not any(isinstance(e, h2.events.DataReceived) for e in evs),
                  'server-accepts-request-body-on-stream-1', h2h.ev_names(evs))
    return h


def shards(tier, seed):
    return [Shard('handover/token-alphabet', h_token_alphabet(), expect=['checked']),
            Shard('handover/invalid-header-settings', h_invalid_header_settings(),
                  expect=['refused', 'upgraded']),
            Shard('handover/symbolic-settings', h_settings_handover(True), budget=120,
                  expect=['upgraded']),
            Shard('handover/default-settings', h_settings_handover(False), expect=['upgraded']),
            Shard('stream_one', h_stream_one(), expect=['upgraded'])]
