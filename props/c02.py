"""C02 -- emitted bytes are well-formed HTTP/2 that encode exactly the calls."""
from hyperframe import frame as hf

import h2.events
import h2.exceptions
from h2.settings import SettingCodes

from engine.core import (check, note, sym_int, sym_bool, sym_choice, assume_z, s_le, s_lt, s_and,
                         s_or, s_not, s_eq, INT31, INT32, CTX)
from engine import h2h, ops, models
from engine.models import LenBytes, sym_bytes
from engine.runner import Shard
from props import fsm_common as F

MODELS = ['fmt_stub', 'HfSerialize', 'HpackEnc', 'LenBytes', 'FrameFeed', 'SettingsBlob']
BOUNDS = {
    'peer MAX_FRAME_SIZE M': '2^14..2^24-1 symbolic',
    'encoded header block length B': '1..3M symbolic (at most three fragments)',
    'priority arguments / promised id': 'weight 1..256, depends_on 0..2^31-1, exclusive symbolic',
    'programs': 'catalogue entries (all slices) + ONE public call: the frames appended are '
                'compared field by field with what the call specifies; initiate_connection for '
                'both roles with the advertised settings',
    'settings before DATA': 'a received SETTINGS frame carrying MAX_FRAME_SIZE alone or with one '
                            'other setting (symbolic values), then send_data of symbolic length',
}
OUTSIDE = ['byte-level layout of each frame (hyperframe contract; every native replay re-parses '
           'the real bytes with hyperframe as the independent decoder)',
           'header blocks longer than three frames']
ASSUMPTIONS = ['the encoder returns an opaque block of symbolic length (HpackEnc model)']


class LenEncoder:
    header_table_size = 4096

    def __init__(self, n):
        self.n = n

    def encode(self, headers):
        list(headers)
        if CTX.mode == 'sym':
            return LenBytes(self.n)
        return b'\x00' * self.n


def h_fragment(kind):
    """a header block around the frame-size boundary"""
    client = kind in ('headers', 'headers+priority', 'headers+end')

    def h():
        with h2h.native():
            ctx = ops.Ctx(client)
            if not client:
                ops.run_op(ctx, ('HEADERS', 1, 'req', False))
                ctx.me.data_to_send()
        me = ctx.me
        M = sym_int('M', 2 ** 14, 2 ** 24 - 1, default=16384)
        B = sym_int('B', 1, 3 * (2 ** 24), default=16384)
        assume_z(s_le(B, 3 * M))
        h2h.Adapter.set_max_out_frame(me, M)
        me.encoder = LenEncoder(B)
        out = models.Out(me)
        kw = {}
        if kind == 'headers+priority':
            kw = dict(priority_weight=sym_int('weight', 1, 256, default=16),
                      priority_depends_on=sym_int('dep', 2, INT31, default=3),
                      priority_exclusive=sym_bool('excl'))
        try:
            if kind == 'push':
                me.push_stream(1, 2, h2h.REQ)
            elif kind == 'response':
                me.send_headers(1, h2h.RESP)
            else:
                me.send_headers(1, h2h.REQ, end_stream=(kind == 'headers+end'), **kw)
        except AssertionError:
            check(False, 'frame-over-max-frame-size-assertion', None)
            return
        fr = out.frames()
        note('frames=%d' % len(fr))
        check(len(fr) >= 1, 'no-frames', None)
        first_t = hf.PushPromiseFrame if kind == 'push' else hf.HeadersFrame
        tot = 0
        for i, f in enumerate(fr):
            check(f.body_len <= M, 'frame-over-max-frame-size:%s' % type(f).__name__,
                  (i, f.body_len, M))
            check(f.stream_id == 1, 'fragment-stream-id', None)
            check(isinstance(f, first_t if i == 0 else hf.ContinuationFrame),
                  'fragment-types', [type(x).__name__ for x in fr])
            check(('END_HEADERS' in f.flags) == (i == len(fr) - 1), 'end-headers-placement',
                  [h2h.frame_sig(x) for x in fr])
            tot = tot + len(f.data)
            if i > 0:
                check('END_STREAM' not in f.flags, 'end-stream-on-continuation', None)
        check(tot == B, 'fragments-do-not-sum-to-block', (tot, B))
        if kind == 'headers+end':
            check('END_STREAM' in fr[0].flags, 'end-stream-missing', None)
        if kind == 'headers+priority':
            f = fr[0]
            check('PRIORITY' in f.flags and s_and(f.stream_weight == kw['priority_weight'] - 1,
                                                  f.depends_on == kw['priority_depends_on'],
                                                  bool(f.exclusive) == bool(
                                                      kw['priority_exclusive'])),
                  'priority-fields', None)
        if kind == 'push':
            check(fr[0].promised_stream_id == 2, 'promised-id', None)
    return h


def h_preface(client):
    def h():
        me = h2h.conn(client)
        me.initiate_connection()
        note('initiated')
        raw = bytes(me._data_to_send)
        if CTX.mode != 'sym':
            pre = b'PRI * HTTP/2.0\r\n\r\nSM\r\n\r\n'
            check(raw.startswith(pre) == client, 'preface', raw[:30])
        else:
            pre = b'PRI * HTTP/2.0\r\n\r\nSM\r\n\r\n'
            check(raw.startswith(pre) == client, 'preface', None)
        fr = models.parse_frames(raw) if CTX.mode != 'sym' else _sym_frames(me)
        check(len(fr) == 1 and isinstance(fr[0], hf.SettingsFrame) and 'ACK' not in fr[0].flags,
              'first-frame-is-settings', [h2h.frame_sig(f) for f in fr])
        if fr and isinstance(fr[0], hf.SettingsFrame):
            want = dict((int(k), v) for k, v in me.local_settings.items())
            got = dict((int(k), v) for k, v in fr[0].settings.items())
            check(got == want, 'settings-frame-content', (got, want))
    return h


def _sym_frames(me):
    o = models.Out(me)
    o.mark = 0
    return o.frames()


def _reg(name):
    for n, v in reversed(CTX.registry):
        if n == name:
            return v
    return None


def _table(x):
    t = getattr(x, 'header_table', None)
    if t is None:
        return None
    return [(bytes(n), bytes(v)) for n, v in t.dynamic_entries], t.maxsize


def hpack_pre(ctx):
    """pre_hook: the encoder's dynamic table before the call, and an independent decoder
    holding the same table (what a peer that decoded everything so far holds)"""
    import collections
    import hpack
    enc = ctx.me.encoder
    if getattr(enc, 'header_table', None) is None:
        return None
    dec = hpack.Decoder()
    dec.max_allowed_table_size = 2 ** 32
    dec.max_header_list_size = 2 ** 32
    dec.header_table.dynamic_entries = collections.deque(enc.header_table.dynamic_entries)
    dec.header_table._maxsize = enc.header_table._maxsize
    dec.header_table._current_size = enc.header_table._current_size
    return {'table': _table(enc), 'dec': dec}


def judge_block(op, fr, ctx):
    """the header block of a successful call decodes, with an independent decoder in sync
    with everything emitted before, to exactly the header list of the call; afterwards
    encoder and decoder still agree"""
    info = getattr(ctx, 'pre_info', None)
    if not info or not fr or not isinstance(fr[0].data, bytes):
        return
    want = [tuple(x) for x in (h2h.REQ if op[0] == 'push' else ops.KIND_HEADERS[op[2]])]
    with h2h.native():
        try:
            got = [tuple(x) for x in info['dec'].decode(b''.join(f.data for f in fr), raw=True)]
        except Exception as e:      # noqa
            got = 'undecodable: %r' % (e,)
        after = _table(info['dec'])[0] == _table(ctx.me.encoder)[0]
    check(got == want, 'header-block-does-not-decode-to-the-call:' + op[0], (got, want))
    check(after, 'compression-context-desync-after:' + op[0], None)


def judge(pre, op, out, ctx):
    """each successful call appends exactly the frames it specifies"""
    if op[0].isupper():
        note('frame')
        return
    note(out.cls[0])
    if out.cls[0] != 'ok':
        check(len(out.frames) == 0, 'refused-call-emits:' + op[0], F.op_label(op))
        info = getattr(ctx, 'pre_info', None)
        if info:
            with h2h.native():
                same = _table(ctx.me.encoder) == info['table']
            # a later header block would reference entries the peer never saw
            check(same, 'refused-call-changes-compression-context:' + op[0], F.op_label(op))
        return
    fr = out.frames
    sig = [h2h.frame_sig(f) for f in fr]
    t = op[0]

    def one(cls, sid):
        ok = len(fr) == 1 and isinstance(fr[0], cls) and fr[0].stream_id == sid
        check(ok, 'frames-for-%s' % t, sig)
        return ok
    if t == 'send_headers':
        _t, sid, kind, end = op
        if one(hf.HeadersFrame, sid):
            check(('END_STREAM' in fr[0].flags) == bool(end) and 'END_HEADERS' in fr[0].flags and
                  'PADDED' not in fr[0].flags and 'PRIORITY' not in fr[0].flags,
                  'headers-flags', sig)
            judge_block(op, fr, ctx)
    elif t == 'send_data':
        _t, sid, end = op
        if one(hf.DataFrame, sid):
            check(('END_STREAM' in fr[0].flags) == bool(end) and 'PADDED' not in fr[0].flags,
                  'data-flags', sig)
            check(len(fr[0].data) == _reg('dlen'),
                  'data-length', None)
    elif t == 'end_stream':
        if one(hf.DataFrame, op[1]):
            check('END_STREAM' in fr[0].flags and len(fr[0].data) == 0, 'end-stream-frame', sig)
    elif t == 'reset':
        if one(hf.RstStreamFrame, op[1]):
            check(fr[0].error_code == _reg('code'),
                  'rst-error-code', None)
    elif t == 'push':
        if one(hf.PushPromiseFrame, op[1]):
            check(fr[0].promised_stream_id == op[2] and 'END_HEADERS' in fr[0].flags,
                  'push-frame', sig)
            judge_block(op, fr, ctx)
    elif t == 'wu':
        if one(hf.WindowUpdateFrame, op[1]):
            check(fr[0].window_increment == _reg('inc'),
                  'window-increment', None)
    elif t == 'altsvc':
        one(hf.AltSvcFrame, 0 if op[2] else op[1])
    elif t == 'prioritize':
        if one(hf.PriorityFrame, op[1]):
            check(fr[0].stream_weight == _reg('w') - 1,
                  'priority-weight', None)
    elif t == 'ping':
        if one(hf.PingFrame, 0):
            check('ACK' not in fr[0].flags and fr[0].opaque_data == b'abcdefgh', 'ping-frame',
                  sig)
    elif t == 'settings':
        if one(hf.SettingsFrame, 0):
            check('ACK' not in fr[0].flags and not fr[0].settings, 'settings-frame', sig)
    elif t == 'close':
        if one(hf.GoAwayFrame, 0):
            check(fr[0].error_code == _reg('gcode'),
                  'goaway-code', None)
            want = pre.highest_in if pre.last_goaway is None else pre.last_goaway
            check(fr[0].last_stream_id == want, 'goaway-last-stream-id',
                  (fr[0].last_stream_id, want))
    elif t in ('lfcw', 'rfcw', 'open_counts'):
        check(len(fr) == 0, 'query-call-emits:' + t, sig)
    elif t == 'ack':
        for f in fr:
            check(isinstance(f, hf.WindowUpdateFrame) and f.stream_id in (0, op[1]),
                  'ack-frames', sig)


def h_goaway_fields(client):
    def h():
        with h2h.native():
            ctx = ops.Ctx(client)
        code = sym_int('code', 0, INT32, default=2)
        data = sym_bytes('dlen', 0, 1000, default=4)
        use_data = sym_bool('with_data')
        lsid = sym_choice('last_stream_id', [None, 0, 1, 2 ** 31 - 1])
        out = models.Out(ctx.me)
        ctx.me.close_connection(code, additional_data=data if use_data else None,
                                last_stream_id=lsid)
        note('closed')
        fr = out.frames()
        check(len(fr) == 1 and isinstance(fr[0], hf.GoAwayFrame), 'goaway-frame', None)
        f = fr[0]
        check(s_eq(f.error_code, code), 'goaway-code', None)
        check(f.last_stream_id == (0 if lsid is None else lsid), 'goaway-last-stream-id', None)
        check(len(f.additional_data) == (len(data) if use_data else 0), 'goaway-debug-data',
              None)
    return h


def h_update_settings_frame(client):
    """update_settings(d) appends exactly one SETTINGS frame carrying exactly d (one or two
    solver-chosen ids with symbolic valid values - equal to the value in force or not),
    also while an earlier change is still unacknowledged"""
    def h():
        with h2h.native():
            ctx = ops.Ctx(client)
        me = ctx.me
        ids = [1, 2, 3, 4, 5, 6, 8]
        if sym_bool('earlier_change_pending'):
            pk = sym_choice('pending_id', ids)
            me.update_settings({pk: h2h.SETTING_RANGES[pk][1]})
            me.data_to_send()
        req = {}
        k1 = sym_choice('id1', ids)
        lo, hi = h2h.SETTING_RANGES[k1]
        req[k1] = sym_int('value1', lo, hi, default=lo)
        k2 = sym_choice('id2', [0] + ids)
        if k2 and k2 != k1:
            lo, hi = h2h.SETTING_RANGES[k2]
            req[k2] = sym_int('value2', lo, hi, default=lo)
        out = models.Out(me)
        me.update_settings(dict(req))
        note('sent')
        fr = out.frames()
        check(len(fr) == 1 and isinstance(fr[0], hf.SettingsFrame) and 'ACK' not in fr[0].flags
              and fr[0].stream_id == 0, 'settings-frame', [h2h.frame_sig(f) for f in fr])
        if len(fr) == 1 and isinstance(fr[0], hf.SettingsFrame):
            got = fr[0].settings
            check(sorted(int(k) for k in got) == sorted(req), 'settings-frame-ids',
                  (sorted(int(k) for k in got), sorted(req)))
            for k, v in req.items():
                if k in got:
                    check(s_eq(got[k], v), 'settings-frame-value', (k, got[k], v))
    return h


def h_frame_size_after_settings(client, other):
    """the frame-size limit in force is the one of the latest SETTINGS frame received"""
    def h():
        with h2h.native():
            ctx = ops.Ctx(client)
            if client:
                ops.run_op(ctx, ('send_headers', 1, 'req', False))
            else:
                ops.run_op(ctx, ('HEADERS', 1, 'req', False))
                ops.run_op(ctx, ('send_headers', 1, 'resp', False))
            ctx.me.data_to_send()
        me = ctx.me
        from props.c11 import EncoderModel, VALID
        me.encoder = EncoderModel()
        M0 = sym_int('M_first', 2 ** 14, 2 ** 24 - 1, default=32768)
        M = sym_int('M', 2 ** 14, 2 ** 24 - 1, default=16384)
        f0 = hf.SettingsFrame(0)
        f0.settings = {SettingCodes.MAX_FRAME_SIZE: M0, SettingCodes.INITIAL_WINDOW_SIZE: INT31}
        f = hf.SettingsFrame(0)
        f.settings = {SettingCodes.MAX_FRAME_SIZE: M}
        if other is not None:
            lo, hi = VALID[other]
            f.settings[other] = sym_int('other', lo, hi, default=lo)
            if other == SettingCodes.INITIAL_WINDOW_SIZE:
                f.settings[other] = INT31
        h2h.deliver(me, [f0])
        h2h.deliver(me, [f])
        h2h.Adapter.set_conn_out_window(me, INT31)
        if sym_choice('then', ['data', 'header-block']) == 'header-block':
            # a header block on the stream that lived through both changes
            B = sym_int('B', 1, 3 * (2 ** 24), default=40000)
            assume_z(s_le(B, 3 * M))
            me.encoder = LenEncoder(B)
            out = models.Out(me)
            try:
                me.send_headers(1, h2h.TRAILERS, end_stream=True)
            except AssertionError:
                check(False, 'frame-over-max-frame-size-assertion', None)
                return
            note('sent')
            for fr in out.frames():
                check(fr.body_len <= M, 'frame-over-max-frame-size:%s' % type(fr).__name__,
                      (fr.body_len, M))
            return
        data = sym_bytes('n', 0, 2 ** 24 + 10, default=20000)
        out = models.Out(me)
        try:
            me.send_data(1, data)
        except h2.exceptions.FrameTooLargeError:
            note('refused')
            check(s_lt(M, len(data)), 'frame-within-limit-refused', None)
        else:
            note('sent')
            check(s_le(len(data), M), 'frame-over-max-frame-size:DataFrame', None)
            for fr in out.frames():
                if isinstance(fr, hf.DataFrame):
                    check(fr.body_len <= M, 'frame-over-max-frame-size:DataFrame', None)
    return h


def shards(tier, seed):
    out = F.standard_shards(tier, seed, judge, alpha_filter=lambda o: not o[0].isupper(),
                            pre_hook=hpack_pre)
    for kind in ('headers', 'headers+end', 'headers+priority', 'response', 'push'):
        out.append(Shard('fragment/%s' % kind, h_fragment(kind),
                         expect=['frames=1', 'frames=2', 'frames=3']))
    for client in (True, False):
        r = 'client' if client else 'server'
        out.append(Shard('preface/%s' % r, h_preface(client), expect=['initiated']))
        out.append(Shard('goaway_fields/%s' % r, h_goaway_fields(client), expect=['closed']))
        out.append(Shard('update_settings_frame/%s' % r, h_update_settings_frame(client),
                         expect=['sent']))
        for other in [None] + [SettingCodes(x) for x in (1, 2, 3, 4, 6, 8)]:
            out.append(Shard('frame_size_after_settings/%s/with=%s' % (
                r, int(other) if other else 'none'), h_frame_size_after_settings(client, other),
                expect=['sent', 'refused']))
    # after an h2c upgrade the limits in force are those of the HTTP2-Settings header
    from props import c25
    out.append(Shard('upgrade_handover', c25.h_settings_handover(True), budget=120,
                     expect=['upgraded']))
    return out
