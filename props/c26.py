"""C26 -- each received PING is answered exactly once with the same payload."""
from hyperframe import frame as hf

import h2.events
import h2.exceptions

from engine.core import (sym_int, sym_bool, sym_choice, check, note, s_eq, CTX)
from engine import h2h, models
from engine.models import sym_bytes, LenBytes
from engine.runner import Shard

MODELS = ['fmt_stub', 'HfSerialize', 'FrameFeed', 'LenBytes']
BOUNDS = {
    'payload': 'opaque byte string whose identity is tracked (content unconstrained: h2 must '
               'pass the very object through); ping() argument length 0..16 symbolic',
    'frames per receive_data call': '1..3 PING frames, ACK flag of each symbolic, plus one '
                                    'WINDOW_UPDATE / SETTINGS frame at each position',
    'connection state': 'idle (no stream yet) and open (one stream), client and server; '
                        'pending output present or absent before the call',
}
OUTSIDE = ['more than 3 PINGs per call (the handler is loop-free per frame)']
ASSUMPTIONS = ['h2 never inspects PING payload content (LenBytes raises a harness error if '
               'it does)']


def _same(a, b):
    return a is b or a == b


def _witness(client, open_, pending):
    c, s = h2h.pair()
    if open_:
        c.send_headers(1, h2h.REQ_POST)
        h2h.pump(c, s)
    me = c if client else s
    if pending:
        me.ping(b'pending!')       # something already sitting in the output buffer
    return me


PAYLOADS = [b'AAAAAAAA', b'BBBBBBBB', b'\x00' * 8]


def _payload(i):
    """one of a few concrete payloads, chosen by the solver: PINGs may repeat a payload
    (keep-alive senders do) or differ"""
    from engine.core import sym_choice
    if i == 0:
        return PAYLOADS[0]
    return sym_choice('payload%d' % i, PAYLOADS[:i + 1])


def h_recv(client, open_, pending, npings, other_pos):
    def h():
        with h2h.native():
            me = _witness(client, open_, pending)
        frames, expect_ev, expect_ack = [], [], []
        for i in range(npings):
            f = hf.PingFrame(0)
            f.opaque_data = _payload(i)
            if sym_bool('ack%d' % i):
                f.flags.add('ACK')
                expect_ev.append((h2.events.PingAckReceived, f.opaque_data))
            else:
                expect_ev.append((h2.events.PingReceived, f.opaque_data))
                expect_ack.append(f.opaque_data)
            frames.append(f)
        if other_pos is not None:
            w = hf.WindowUpdateFrame(0)
            w.window_increment = sym_int('inc', 1, 1000, default=5)
            frames.insert(other_pos, w)
            expect_ev.insert(other_pos, (h2.events.WindowUpdated, None))
        out = models.Out(me)
        evs = h2h.deliver(me, frames)
        note('received')
        check(len(evs) == len(expect_ev), 'event-count', h2h.ev_names(evs))
        # an application that dispatches with isinstance sees one PingReceived per PING
        # without ACK and one PingAckReceived per PING ACK - the two kinds do not overlap
        n_ping = sum(1 for c, _d in expect_ev if c is h2.events.PingReceived)
        n_ack = sum(1 for c, _d in expect_ev if c is h2.events.PingAckReceived)
        check(sum(1 for e in evs if isinstance(e, h2.events.PingReceived)) == n_ping and
              sum(1 for e in evs if isinstance(e, h2.events.PingAckReceived)) == n_ack,
              'ping-event-kinds-overlap', h2h.ev_names(evs))
        for e, (cls, data) in zip(evs, expect_ev):
            check(type(e) is cls, 'event-type-order', h2h.ev_names(evs))
            if data is not None:
                check(_same(e.ping_data, data), 'event-payload', None)
        fr = out.frames()
        check(len(fr) == len(expect_ack), 'ack-count', [h2h.frame_sig(f) for f in fr])
        for f, data in zip(fr, expect_ack):
            check(isinstance(f, hf.PingFrame) and 'ACK' in f.flags and f.stream_id == 0,
                  'ack-frame', h2h.frame_sig(f))
            if isinstance(f, hf.PingFrame):
                check(_same(f.opaque_data, data), 'ack-payload-order', None)
    return h


def h_recv_then_error(client, npings):
    """PINGs followed IN THE SAME receive_data call by a frame that is a connection error:
    the PINGs that came first are answered all the same (their ACKs precede the GOAWAY)"""
    def h():
        with h2h.native():
            me = _witness(client, True, False)
        frames, expect_ack = [], []
        for i in range(npings):
            f = hf.PingFrame(0)
            f.opaque_data = _payload(i)
            if sym_bool('ack%d' % i):
                f.flags.add('ACK')
            else:
                expect_ack.append(f.opaque_data)
            frames.append(f)
        bad = sym_choice('error_frame', ['window-overflow', 'continuation', 'data-on-idle'])
        if bad == 'window-overflow':
            g = hf.WindowUpdateFrame(0)
            g.window_increment = 2 ** 31 - 1
        elif bad == 'continuation':
            g = hf.ContinuationFrame(1)
            g.data = b'x'
        else:
            g = hf.DataFrame(99)
            g.data = b'x'
        frames.append(g)
        out = models.Out(me)
        try:
            h2h.deliver(me, frames)
        except h2.exceptions.ProtocolError:
            note('error')
        else:
            note('no-error')
            return
        fr = out.frames()
        acks = [f for f in fr if isinstance(f, hf.PingFrame)]
        check(len(acks) == len(expect_ack), 'ack-count', [h2h.frame_sig(f) for f in fr])
        for f, data in zip(acks, expect_ack):
            check('ACK' in f.flags and _same(f.opaque_data, data), 'ack-payload-order', None)
        check(len(fr) == len(acks) + 1 and isinstance(fr[-1], hf.GoAwayFrame),
              'goaway-not-last', [h2h.frame_sig(f) for f in fr])
    return h


def h_ping(client, open_):
    def h():
        with h2h.native():
            me = _witness(client, open_, False)
        if sym_bool('ping_received_before'):
            # history: a PING of the peer was received and answered before we ping
            f = hf.PingFrame(0)
            f.opaque_data = PAYLOADS[1]
            h2h.deliver(me, [f])
            if sym_bool('drained'):
                me.data_to_send()
        if sym_bool('pinged_before'):
            me.ping(PAYLOADS[0])
        data = sym_bytes('len', 0, 16, default=8)
        out = models.Out(me)
        try:
            me.ping(data)
        except ValueError:
            note('refused')
            check(len(data) != 8, 'ping-refused-8-bytes', None)
            check(out.nbytes() == 0, 'raise-emits', None)
        else:
            note('sent')
            check(len(data) == 8, 'ping-accepted-wrong-length', len(data))
            fr = out.frames()
            check(len(fr) == 1 and isinstance(fr[0], hf.PingFrame) and
                  'ACK' not in fr[0].flags and fr[0].stream_id == 0, 'ping-frame', None)
            if fr and isinstance(fr[0], hf.PingFrame):
                check(_same(fr[0].opaque_data, data), 'ping-payload', None)
    return h


def h_ping_type(client):
    """non-bytes payloads are refused"""
    def h():
        with h2h.native():
            me = _witness(client, True, False)
        out = models.Out(me)
        for bad in (u'12345678', bytearray(b'12345678'), None, 12345678):
            try:
                me.ping(bad)
            except ValueError:
                pass
            except TypeError:
                pass
            else:
                check(False, 'ping-accepted-non-bytes', repr(bad))
        note('refused')
        check(out.nbytes() == 0, 'raise-emits', None)
    return h


def shards(tier, seed):
    out = []
    for client in (True, False):
        r = 'client' if client else 'server'
        for open_ in (False, True):
            st = 'open' if open_ else 'idle'
            out.append(Shard('ping/%s/%s' % (r, st), h_ping(client, open_),
                             expect=['sent', 'refused']))
            for pending in (False, True):
                for n in (1, 2, 3):
                    poss = [None] + list(range(n + 1))
                    if tier == 'quick':
                        poss = [None, 1] if n > 1 else [None, 0]
                        if pending and n == 1:
                            continue
                    for pos in poss:
                        out.append(Shard(
                            'recv/%s/%s/%s/n=%d/other@%s' % (
                                r, st, 'pending' if pending else 'empty', n, pos),
                            h_recv(client, open_, pending, n, pos), expect=['received']))
        out.append(Shard('ping_type/%s' % r, h_ping_type(client), expect=['refused']))
        for n in (1, 2):
            out.append(Shard('recv_then_error/%s/n=%d' % (r, n), h_recv_then_error(client, n),
                             expect=['error']))
    return out
