"""C18 -- every connection error emits exactly one GOAWAY with the RFC-mandated code."""
from hyperframe import frame as hf
import hpack.exceptions
import hyperframe.exceptions

import h2.events
import h2.exceptions
from h2.errors import ErrorCodes
from h2.settings import SettingCodes

from engine.core import (check, note, sym_int, sym_bool, sym_choice, assume_z, s_le, s_lt, s_and,
                         s_or, s_not, s_eq, INT31, INT32, CTX)
from engine import h2h, ops, models
from engine.models import sym_bytes
from engine.runner import Shard
from props import fsm_common as F
from props import c06
from props.c27 import DecoderModel

MODELS = ['fmt_stub', 'HfSerialize', 'FrameFeed', 'LenBytes', 'HpackDec']
BOUNDS = {
    'violations by state': 'every catalogue entry (all slices) x every peer frame of the alphabet '
                           '(symbolic numeric fields): whenever receive_data raises, the GOAWAY '
                           'rule is checked and the code is compared with the RFC 5.1 oracle of C06',
    'size violations': 'frame length 0..2^24-1 symbolic against the acknowledged '
                       'MAX_FRAME_SIZE 2^14..2^24-1 symbolic; the parser outcome for fixed-size '
                       'frames is a solver choice among what the real FrameBuffer can raise',
    'window violations': 'DATA length / windows / increments symbolic',
    'compression': 'the decoder outcome is a solver choice among the installed hpack exception '
                   'classes',
}
OUTSIDE = ['which concrete byte strings make hyperframe / hpack fail (their contracts; the native '
           'replays use real malformed bytes)']
ASSUMPTIONS = ['last-stream-id oracle: the observer\'s highest peer-initiated stream id that was '
               'accepted']

PE, FC, SC, FS, CE, EYC = 1, 3, 5, 6, 9, 11


def goaway_rule(pre, out, ctx, tag, want_code=None):
    """exactly one GOAWAY, its code equals the exception's (and the category's), its
    last-stream-id is the highest stream id the peer opened"""
    exc = out.exc
    gs = [f for f in out.frames if isinstance(f, hf.GoAwayFrame)]
    check(len(gs) == 1, tag + ':goaway-count-%d' % len(gs), [h2h.frame_sig(f) for f in out.frames])
    check(len(out.frames) == len(gs), tag + ':other-frames-with-goaway',
          [h2h.frame_sig(f) for f in out.frames])
    if gs:
        g = gs[0]
        check(g.error_code == exc.error_code, tag + ':goaway-code-differs-from-exception',
              (g.error_code, exc.error_code))
        if want_code is not None:
            check(g.error_code == want_code, tag + ':wrong-code-%s' % int(g.error_code), want_code)
        ok_ids = {pre.highest_in}
        if pre.last_goaway is not None and pre.last_goaway > pre.highest_in:
            # an earlier GOAWAY already counted a stream the peer opened with the very frame
            # that was refused
            ok_ids.add(pre.last_goaway)
        f = getattr(out, 'sent_frame', None)
        if pre.conn_closed is None and f is not None and type(f).__name__ in (
                'HeadersFrame',) and not pre.own(f.stream_id) and f.stream_id > pre.highest_in:
            # the offending frame itself is the peer opening that stream
            ok_ids.add(f.stream_id)
        check(g.last_stream_id in ok_ids, tag + ':last-stream-id',
              (g.last_stream_id, sorted(ok_ids)))


def judge(pre, op, out, ctx):
    if not op[0].isupper() or out.exc is None:
        note('no-error')
        return
    note(out.cls[0])
    if not isinstance(out.exc, h2.exceptions.ProtocolError):
        check(False, 'crash:' + type(out.exc).__name__, F.op_label(op))
        return
    want = None
    allowed = c06.expect(pre, op)
    if allowed and pre.conn_closed is None:
        codes = set(c[1] for c in allowed if c[0] == 'conn_error')
        if len(codes) == 1 and all(c[0] == 'conn_error' for c in allowed):
            want = codes.pop()
    goaway_rule(pre, out, ctx, 'state', want)


def _ctx(client):
    ctx = ops.Ctx(client)
    if client:
        ops.run_op(ctx, ('send_headers', 1, 'req', False))
        ops.run_op(ctx, ('HEADERS', 1, 'resp', False))
    else:
        ops.run_op(ctx, ('HEADERS', 1, 'req', False))
        ops.run_op(ctx, ('HEADERS', 3, 'req', True))
    ctx.me.data_to_send()
    return ctx


def _run(ctx, frames):
    out = ops.Outcome(('X',))
    cap = models.Out(ctx.me)
    try:
        out.events = h2h.deliver(ctx.me, frames)
    except Exception as e:     # noqa
        out.exc = e
    out.frames = cap.frames()
    return out


def h_frame_size(client):
    """a frame longer than the acknowledged MAX_FRAME_SIZE"""
    def h():
        with h2h.native():
            ctx = _ctx(client)
            pre = ctx.obs.clone()
        M = sym_int('max_frame_size', 2 ** 14, 2 ** 24 - 1, default=16384)
        ctx.me.max_inbound_frame_size = M
        A = h2h.Adapter
        A.set_wm(A.conn_wm(ctx.me), INT31, INT31, 0)
        A.set_wm(A.stream_wm(ctx.me, 1), INT31, INT31, 0)
        f = hf.DataFrame(1)
        f.data = sym_bytes('dlen', 0, 2 ** 24 - 1, default=20000)
        out = _run(ctx, [f])
        if out.exc is None:
            note('accepted')
            check(s_le(len(f.data), M), 'oversized-frame-accepted', None)
        else:
            note('rejected')
            check(s_lt(M, len(f.data)), 'frame-within-limit-rejected', type(out.exc).__name__)
            goaway_rule(pre, out, ctx, 'size', FS)
    return h


PARSER_ERRORS = ['InvalidFrameError', 'InvalidDataError', 'InvalidPaddingError']


class FailingFeed(h2h.FrameFeed):
    """FrameFeed whose next frame fails to parse the way the real FrameBuffer reports it"""

    def __init__(self, kind):
        h2h.FrameFeed.__init__(self, [], None)
        self.kind = kind
        self.done = False

    def __next__(self):
        if self.done:
            raise StopIteration()
        self.done = True
        if self.kind == 'InvalidFrameError':
            raise h2.exceptions.FrameDataMissingError("Frame data missing or invalid")
        if self.kind == 'InvalidDataError':
            raise h2.exceptions.ProtocolError("Received frame with non-compliant data")
        raise hyperframe.exceptions.InvalidPaddingError("Padding is too long.")


def h_parse_error(client):
    def h():
        with h2h.native():
            ctx = _ctx(client)
            pre = ctx.obs.clone()
        kind = sym_choice('parser_error', PARSER_ERRORS)
        out = ops.Outcome(('X',))
        cap = models.Out(ctx.me)
        if CTX.mode == 'sym':
            real = ctx.me.incoming_buffer
            ctx.me.incoming_buffer = FailingFeed(kind)
            try:
                ctx.me.receive_data(b'')
            except Exception as e:     # noqa
                out.exc = e
            ctx.me.incoming_buffer = real
        else:
            # real malformed bytes through the real parser
            wire = {'InvalidFrameError': b'\x00\x00\x03\x03\x00\x00\x00\x00\x01abc',   # RST len 3
                    'InvalidDataError': b'\x00\x00\x04\x08\x00\x00\x00\x00\x00\x00\x00\x00\x00',
                    'InvalidPaddingError': b'\x00\x00\x02\x00\x08\x00\x00\x00\x01\x05a'}[kind]
            try:
                ctx.me.receive_data(wire)
            except Exception as e:     # noqa
                out.exc = e
        out.frames = cap.frames()
        note(kind)
        check(isinstance(out.exc, h2.exceptions.ProtocolError), 'parse-error-not-protocolerror',
              type(out.exc).__name__)
        if isinstance(out.exc, h2.exceptions.ProtocolError):
            goaway_rule(pre, out, ctx, 'parse', FS if kind == 'InvalidFrameError' else PE)
    return h


HPACK_ERRORS = ['HPACKDecodingError', 'InvalidTableIndex', 'InvalidTableSizeError',
                'OversizedHeaderListError']


def h_compression(client, via_push):
    def h():
        with h2h.native():
            ctx = _ctx(client)
            pre = ctx.obs.clone()
        name = sym_choice('hpack_error', [n for n in HPACK_ERRORS
                                          if hasattr(hpack.exceptions, n)])
        if CTX.mode == 'sym':
            ctx.me.decoder = DecoderModel(getattr(hpack.exceptions, name))
            block = sym_bytes('blen', 1, 100, default=3)
        else:
            block = {'HPACKDecodingError': b'\x00\x85', 'InvalidTableIndex': b'\xff\x7f',
                     'InvalidTableIndexError': b'\xff\x7f',
                     'InvalidTableSizeError': b'\x3f\xe1\xff\x03',
                     'OversizedHeaderListError': None}[name]
            if block is None:
                ctx.me.decoder.max_header_list_size = 10
                block = hpack.Encoder().encode([(b'x' * 20, b'y' * 20)])
        if via_push:
            f = hf.PushPromiseFrame(1)
            f.promised_stream_id = 2
        else:
            f = hf.HeadersFrame(1 if client else 5)
        f.data = block
        f.flags.add('END_HEADERS')
        out = _run(ctx, [f])
        note(name)
        check(isinstance(out.exc, h2.exceptions.ProtocolError), 'undecodable-block-accepted',
              type(out.exc).__name__)
        if isinstance(out.exc, h2.exceptions.ProtocolError):
            goaway_rule(pre, out, ctx, 'hpack',
                        EYC if name == 'OversizedHeaderListError' else CE)
    return h


def h_flow(client):
    """window violations: DATA over a window, WINDOW_UPDATE overflow of the connection window"""
    def h():
        with h2h.native():
            ctx = _ctx(client)
            pre = ctx.obs.clone()
        A = h2h.Adapter
        cc = sym_int('conn_cur', 0, INT31, default=10)
        sc = sym_int('stream_cur', 0, INT31, default=10)
        A.set_wm(A.conn_wm(ctx.me), cc, INT31, 0)
        A.set_wm(A.stream_wm(ctx.me, 1), sc, INT31, 0)
        W = sym_int('out_window', 0, INT31, default=INT31)
        A.set_conn_out_window(ctx.me, W)
        which = sym_choice('frame', ['DATA', 'WINDOW_UPDATE'])
        if which == 'DATA':
            f = hf.DataFrame(1)
            f.data = sym_bytes('dlen', 0, 16384, default=100)
            over = s_or(s_lt(cc, len(f.data)), s_lt(sc, len(f.data)))
        else:
            f = hf.WindowUpdateFrame(0)
            f.window_increment = sym_int('inc', 1, INT31, default=5)
            over = s_lt(INT31, W + f.window_increment)
        out = _run(ctx, [f])
        if out.exc is None:
            note('accepted')
            check(s_not(over), 'window-violation-accepted', which)
        else:
            note('rejected')
            check(over, 'no-window-violation-but-rejected', (which, type(out.exc).__name__))
            goaway_rule(pre, out, ctx, 'flow', FC)
    return h


def h_second_error(client):
    """a second violating frame after the connection error: still exactly one GOAWAY per
    raise, and its last-stream-id does not grow"""
    def h():
        with h2h.native():
            ctx = _ctx(client)
        o1 = ops.run_op(ctx, ('CONT', 1), symbolic=True)
        check(o1.cls[0] == 'conn_error', 'first-error', o1.cls)
        ctx.me.data_to_send()
        pre = ctx.obs.clone()
        op = F.sym_choice('op', [('HEADERS', 7, 'req', False), ('DATA', 1, False), ('PING', False),
                                 ('RST', 1), ('WU', 0), ('SETTINGS', False), ('CONT', 1),
                                 ('PRIORITY', 1), ('ALTSVC', 0, True)])
        o2 = ops.run_op(ctx, op, symbolic=True)
        note(o2.cls[0])
        if o2.exc is not None:
            goaway_rule(pre, o2, ctx, 'after-close')
        else:
            check(len(o2.frames) == 0, 'frames-after-close', None)
    return h


def h_error_after_graceful_close(client):
    """the application announced shutdown with close_connection(last_stream_id=k), k possibly
    below the highest stream the peer opened; a later violating frame still gets exactly one
    GOAWAY whose last-stream-id is the highest stream id the peer has opened"""
    def h():
        with h2h.native():
            ctx = ops.Ctx(client)
            if client:
                ops.run_op(ctx, ('send_headers', 1, 'req', False))
                ops.run_op(ctx, ('PP', 1, 2))
                ops.run_op(ctx, ('PP', 1, 4))
            else:
                ops.run_op(ctx, ('HEADERS', 1, 'req', False))
                ops.run_op(ctx, ('HEADERS', 3, 'req', False))
                ops.run_op(ctx, ('HEADERS', 5, 'req', False))
            ctx.me.data_to_send()
        k = sym_int('last_stream_id', 0, 9, default=1)
        cap = models.Out(ctx.me)
        ctx.me.close_connection(last_stream_id=k)
        fr = cap.frames()
        check(len(fr) == 1 and isinstance(fr[0], hf.GoAwayFrame) and fr[0].last_stream_id == k,
              'close-connection-frame', [h2h.frame_sig(f) for f in fr])
        ctx.me.data_to_send()
        pre = ctx.obs.clone()
        pre.last_goaway = None          # the announced id is the application's, not the rule's
        op = F.sym_choice('op', [('DATA', 9, False), ('CONT', 1), ('PING', False),
                                 ('HEADERS', 1, 'trailers', False)])
        o2 = ops.run_op(ctx, op, symbolic=True, observe=False)
        note(o2.cls[0])
        if o2.exc is not None:
            goaway_rule(pre, o2, ctx, 'after-graceful-close')
    return h


def h_closed_pushed_stream_memory():
    """client side of the same question: a pushed stream that closed (ended / reset by us /
    reset by the peer) and was purged - whether or not it carries the highest promised id -
    answers a later HEADERS with the class its closing reason prescribes"""
    def h():
        how = F.sym_choice('stream2', ['recv_es', 'send_rst', 'recv_rst'])
        later_push = F.sym_choice('stream4_promised_later', [False, True])
        with h2h.native():
            ctx = ops.Ctx(True)
            steps = [('send_headers', 1, 'req', False), ('PP', 1, 2)]
            steps += {'recv_es': [('HEADERS', 2, 'resp', True)],
                      'send_rst': [('reset', 2)],
                      'recv_rst': [('RST', 2)]}[how]
            if later_push:
                steps.append(('PP', 1, 4))
            steps.append(('open_counts',))
            for o in steps:
                r = ops.run_op(ctx, o)
                if r.cls[0] not in ('ok', 'accept'):
                    raise h2h.HarnessError('shape: %r -> %r' % (o, r.cls))
            ctx.me.data_to_send()
            pre = ctx.obs.clone()
        op = ('HEADERS', 2, 'resp', True)
        out = ops.run_op(ctx, op, symbolic=True)
        note(out.cls[0])
        allowed = c06.expect(pre, op)
        got = c06.norm(out.cls)
        check(got in allowed, 'closed-stream-memory:pushed:%s:%s' % (
            how, '.'.join(str(x) for x in got)), sorted(allowed, key=repr))
        if out.exc is not None:
            goaway_rule(pre, out, ctx, 'closed-stream-memory')
    return h


def h_goaway_after_refused_push():
    """pushes the client refused (their parent was reset) with lower, equal or higher promised
    ids than the ones seen before, then a connection error: the GOAWAY still names the highest
    stream id the peer has used"""
    def h():
        with h2h.native():
            ctx = ops.Ctx(True)
            for o in (('send_headers', 1, 'req', False), ('send_headers', 3, 'req', False),
                      ('PP', 3, 4), ('reset', 1)):
                ops.run_op(ctx, o)
            ctx.me.data_to_send()
        for i in range(2):
            pid = F.sym_choice('promised%d' % i, [2, 4, 6, 8])
            o = ops.run_op(ctx, ('PP', 1, pid), symbolic=True)
            ctx.me.data_to_send()
            if o.exc is not None:
                note('error-on-push')
                return
        pre = ctx.obs.clone()
        o2 = ops.run_op(ctx, ('CONT', 3), symbolic=True)
        note(o2.cls[0])
        check(o2.exc is not None, 'naked-continuation-accepted', None)
        if o2.exc is not None:
            goaway_rule(pre, o2, ctx, 'after-refused-push')
    return h


SHAPES = {
    'open': [('HEADERS', 'req', False)],
    'hcr': [('HEADERS', 'req', True)],
    'send_es': [('HEADERS', 'req', True), ('send_headers', 'resp', True)],
    'recv_es': [('HEADERS', 'req', False), ('send_headers', 'resp', True), ('DATA', True)],
    'send_rst': [('HEADERS', 'req', False), ('reset',)],
    'recv_rst': [('HEADERS', 'req', False), ('RST',)],
}


def h_closed_stream_memory():
    """how a stream was closed is remembered correctly when it is forgotten: streams 1 and 3
    end in the given ways, the closed ones are purged, then HEADERS arrives on stream 1 and is
    answered by the class the RFC prescribes for the way stream 1 closed"""
    def h():
        first = F.sym_choice('stream1', ['send_es', 'recv_es', 'send_rst', 'recv_rst'])
        second = F.sym_choice('stream3', ['open', 'hcr', 'send_es', 'recv_es', 'send_rst',
                                          'recv_rst'])
        third = F.sym_choice('stream5', ['none', 'open', 'recv_rst', 'send_es'])
        interleaved = F.sym_choice('interleaved', [True, False])
        with h2h.native():
            ctx = ops.Ctx(False)
            todo = [(sid, shape) for sid, shape in ((1, first), (3, second), (5, third))
                    if shape != 'none']
            # all three are opened first and closed afterwards (so that a stream is purged
            # while younger streams exist), or each is finished before the next one opens
            steps = []
            if interleaved:
                steps = [(sid, SHAPES[sh][0]) for sid, sh in todo] + \
                    [(sid, o) for sid, sh in todo for o in SHAPES[sh][1:]]
            else:
                steps = [(sid, o) for sid, sh in todo for o in SHAPES[sh]]
            for sid, o in steps:
                r = ops.run_op(ctx, (o[0], sid) + tuple(o[1:]))
                if r.cls[0] not in ('ok', 'accept'):
                    raise h2h.HarnessError('shape: %r on %d -> %r' % (o, sid, r.cls))
            ctx.me.data_to_send()
            ops.run_op(ctx, ('open_counts',))
            pre = ctx.obs.clone()
        out = ops.run_op(ctx, ('HEADERS', 1, 'trailers', True), symbolic=True)
        note(out.cls[0])
        allowed = c06.expect(pre, ('HEADERS', 1, 'trailers', True))
        got = c06.norm(out.cls)
        check(got in allowed, 'closed-stream-memory:%s+%s:%s' % (
            first, second, '.'.join(str(x) for x in got)), sorted(allowed, key=repr))
        if out.exc is not None:
            goaway_rule(pre, out, ctx, 'closed-stream-memory')
    return h


def shards(tier, seed):
    out = F.standard_shards(tier, seed, judge, alpha_filter=lambda o: o[0].isupper(),
                            closure=False)
    out.append(Shard('closed_stream_memory/server', h_closed_stream_memory()))
    out.append(Shard('closed_stream_memory/client-pushed', h_closed_pushed_stream_memory()))
    out.append(Shard('goaway_after_refused_push/client', h_goaway_after_refused_push(),
                     expect=['conn_error']))
    for client in (True, False):
        out.append(Shard('error_after_graceful_close/%s' % ('client' if client else 'server'),
                         h_error_after_graceful_close(client)))
    for client in (True, False):
        r = 'client' if client else 'server'
        out.append(Shard('frame_size/%s' % r, h_frame_size(client),
                         expect=['accepted', 'rejected']))
        out.append(Shard('parse_error/%s' % r, h_parse_error(client)))
        out.append(Shard('compression/%s/headers' % r, h_compression(client, False)))
        if client:
            out.append(Shard('compression/%s/push_promise' % r, h_compression(client, True)))
        out.append(Shard('flow/%s' % r, h_flow(client), expect=['accepted', 'rejected']))
        out.append(Shard('second_error/%s' % r, h_second_error(client)))
    return out
