"""C21 -- results do not depend on how bytes are split."""
import itertools

from hyperframe import frame as hf
import hyperframe.exceptions as hx

import h2.events
import h2.exceptions
from h2.settings import SettingCodes

from engine.core import (check, note, sym_int, sym_bool, sym_choice, assume_z, s_le, s_lt, s_and,
                         s_or, s_not, s_eq, INT31, INT32, CTX)
from engine import h2h, ops, models, abswire
from engine.abswire import Wire, clone_frame
from engine.models import sym_bytes
from engine.runner import Shard
from props import fsm_common as F

MODELS = ['fmt_stub', 'HfSerialize', 'AbsWire', 'HfParse', 'LenBytes']
BOUNDS = {
    'inbound wire': '2 or 3 frames of solver-chosen / enumerated types (DATA, HEADERS, SETTINGS, '
                    'SETTINGS ACK raising MAX_FRAME_SIZE, WINDOW_UPDATE, PING, RST_STREAM, '
                    'PRIORITY, GOAWAY, unknown) with symbolic body lengths 0..2^24-1 and field '
                    'values, each parse outcome a solver choice among what the real parser can '
                    'raise; delivered whole and in three chunks cut at two symbolic positions '
                    '0..total length, to two endpoints built from the same witness; the REAL '
                    'FrameBuffer and receive_data run on the abstract bytes',
    'server preface': 'real bytes of preface + SETTINGS cut at every position',
    'outbound': 'data_to_send(a1), data_to_send(a2), data_to_send() on a 20-byte buffer with '
                'a1, a2 in -3..25 (solver enumerated)',
}
OUTSIDE = ['wires longer than three frames; more than two cuts',
           'unparsable frames of other lengths than one representative per (frame type, parser '
           'exception)',
           'the content of frame bodies (parse outcome is abstract)']
ASSUMPTIONS = ['HfParse contract: parse_body either fills contract-conforming fields or raises '
               'one of InvalidFrameError / InvalidDataError / InvalidPaddingError (validated per '
               'frame class against the real parser on boundary bodies at every run)']
VALIDATORS = [abswire.validate_parse_table]

FRAME_OPS = {
    'DATA': ('DATA', 1, False), 'DATA_END': ('DATA', 1, True), 'DATAP': ('DATAP', 1, False),
    'HEADERS': ('HEADERS', 1, 'resp', False), 'TRAILERS': ('HEADERS', 1, 'trailers', True),
    'WU': ('WU', 1), 'WU0': ('WU', 0), 'PING': ('PING', False), 'RST': ('RST', 1),
    'PRIORITY': ('PRIORITY', 3), 'GOAWAY': ('GOAWAY',), 'SETTINGS': ('SETTINGS', False),
    'UNKNOWN': ('UNKNOWN', 1), 'ALTSVC': ('ALTSVC', 0, True),
    # frames that are connection errors where they stand
    'CONT': ('CONT', 1), 'DATA9': ('DATA', 9, False),
}


def _endpoint():
    """client with stream 1 open and a pending local SETTINGS raising MAX_FRAME_SIZE"""
    ctx = ops.Ctx(True)
    ops.run_op(ctx, ('send_headers', 1, 'req', False))
    ctx.me.update_settings({SettingCodes.MAX_FRAME_SIZE: 2 ** 20})
    ctx.me.data_to_send()
    return ctx


def _build(ctx, kinds):
    frames = []
    from engine import core as _core
    for i, k in enumerate(kinds):
        _core.NAME_PREFIX[0] = 'f%d_' % i
        if k == 'ACK':
            f = hf.SettingsFrame(0)
            f.flags.add('ACK')
        elif k in ('H_NOEND', 'CONT_END'):
            # a header block in two fragments (real HPACK bytes, so that it decodes)
            if k == 'H_NOEND':
                with h2h.native():
                    blk = ctx.peer_enc.encode(h2h.RESP + [(b'x-long', b'v' * 40)])
                ctx._blk = blk
                f = hf.HeadersFrame(1)
                f.data = blk[:-1]
            else:
                f = hf.ContinuationFrame(1)
                f.data = ctx._blk[-1:]
                f.flags.add('END_HEADERS')
        elif k == 'BIGDATA':
            f = hf.DataFrame(1)
            f.data = sym_bytes('big%d' % i, 0, 2 ** 24 - 1, default=17000)
        else:
            # error codes / last-stream-id of RST_STREAM and GOAWAY have nothing to do with
            # chunking (each symbolic code forks ~14 ways in the enum conversion): concrete here
            f = ops.build_frame(ctx, FRAME_OPS[k], k not in ('GOAWAY', 'RST'))
        frames.append(f)
    _core.NAME_PREFIX[0] = ''
    return frames


def _summary(evs):
    out = []
    for e in evs:
        d = [type(e).__name__]
        for a in ('stream_id', 'error_code', 'delta', 'flow_controlled_length', 'ping_data'):
            if hasattr(e, a):
                d.append(getattr(e, a))
        out.append(d)
    return out


def _feed(ctx, pieces):
    """returns (events, error or None, frames emitted)"""
    cap = models.Out(ctx.me)
    evs = []
    err = None
    for p in pieces:
        try:
            evs.extend(ctx.me.receive_data(p))
        except h2.exceptions.ProtocolError as e:
            err = e
            break
    return evs, err, cap.frames()


MALFORMED = {
    ('DataFrame', 'InvalidPaddingError'): (0x0, 0x08, b'\x05a'),
    ('DataFrame', 'InvalidFrameError'): (0x0, 0x08, b''),
    ('HeadersFrame', 'InvalidPaddingError'): (0x1, 0x0C, b'\x05a'),
    ('HeadersFrame', 'InvalidFrameError'): (0x1, 0x0C, b''),
    ('PriorityFrame', 'InvalidFrameError'): (0x2, 0, b'\x00' * 6),
    ('RstStreamFrame', 'InvalidFrameError'): (0x3, 0, b'\x00' * 3),
    ('SettingsFrame', 'InvalidFrameError'): (0x4, 0, b'\x00' * 5),
    ('SettingsFrame', 'InvalidDataError'): (0x4, 0x01, b'\x00' * 6),
    ('PushPromiseFrame', 'InvalidFrameError'): (0x5, 0x04, b'\x00' * 2),
    ('PushPromiseFrame', 'InvalidDataError'): (0x5, 0x04, b'\x00\x00\x00\x03'),
    ('PushPromiseFrame', 'InvalidPaddingError'): (0x5, 0x0C, b'\x09\x00\x00\x00\x02'),
    ('PingFrame', 'InvalidFrameError'): (0x6, 0, b'\x00' * 7),
    ('GoAwayFrame', 'InvalidFrameError'): (0x7, 0, b'\x00' * 4),
    ('WindowUpdateFrame', 'InvalidFrameError'): (0x8, 0, b'\x00' * 5),
    ('WindowUpdateFrame', 'InvalidDataError'): (0x8, 0, b'\x00' * 4),
    ('AltSvcFrame', 'InvalidFrameError'): (0xA, 0, b'\x00\x05ab'),
}


def real_bytes(f, exc):
    """native replay: the frame's real serialisation, or real malformed bytes that make the
    real parser raise `exc` for this frame type"""
    import struct
    if exc is None:
        return f.serialize()
    typ, flags, body = MALFORMED[(type(f).__name__, exc.__name__)]
    return struct.pack(">HBBBL", len(body) >> 8, len(body) & 0xFF, typ, flags,
                       f.stream_id & 0x7FFFFFFF) + body


ALL_KINDS = ['DATA', 'DATA_END', 'DATAP', 'HEADERS', 'TRAILERS', 'WU', 'WU0', 'PING', 'RST',
             'PRIORITY', 'GOAWAY', 'SETTINGS', 'UNKNOWN', 'ALTSVC', 'ACK', 'BIGDATA', 'CONT',
             'DATA9']


def make(kinds, with_parse_errors):
    def h():
        with h2h.native():
            a = _endpoint()
            b = _endpoint()
        ks = [sym_choice('kind_%d' % i, ALL_KINDS) if k == '*' else k
              for i, k in enumerate(kinds)]
        fa = _build(a, ks)
        fb = [clone_frame(f) for f in fa]
        excs = []
        for f in fa:
            choices = [None] + (abswire.PARSE_EXCS[type(f).__name__] if with_parse_errors else [])
            excs.append(sym_choice('parse_%d' % len(excs), choices) if len(choices) > 1
                        else None)
        if CTX.mode == 'sym':
            # a frame whose parse fails has the body length of the real malformed
            # representative used by the native replay
            ov = dict((i, len(MALFORMED[(type(f).__name__, x.__name__)][2]))
                      for i, (f, x) in enumerate(zip(fa, excs)) if x is not None)
            wa, wb = Wire(fa, excs, ov), Wire(fb, excs, ov)
            T = wa.total
        else:
            raw = b''.join(real_bytes(f, x) for f, x in zip(fa, excs))
            T = len(raw)
        c1 = sym_int('cut1', 0, 3 * 2 ** 24 + 100, default=5)
        c2 = sym_int('cut2', 0, 3 * 2 ** 24 + 100, default=12)
        if CTX.mode == 'sym':
            assume_z(s_and(s_le(c1, c2), s_le(c2, T)))
        else:
            c1, c2 = min(c1, T), min(max(c1, c2), T)
        A = h2h.Adapter
        for c in (a, b):
            A.set_wm(A.conn_wm(c.me), INT31, INT31, 0)
            A.set_wm(A.stream_wm(c.me, 1), INT31, INT31, 0)
        if CTX.mode == 'sym':
            ea, xa, oa = _feed(a, [wa.view(0, T)])
            eb, xb, ob = _feed(b, [wb.view(0, c1), wb.view(c1, c2), wb.view(c2, T)])
        else:
            ea, xa, oa = _feed(a, [raw])
            eb, xb, ob = _feed(b, [raw[:c1], raw[c1:c2], raw[c2:]])
        note('error' if xa is not None else 'events=%d' % len(ea))
        check((xa is None) == (xb is None), 'error-depends-on-chunking',
              (type(xa).__name__, type(xb).__name__))
        if xa is not None and xb is not None:
            check(type(xa) is type(xb) and xa.error_code == xb.error_code,
                  'error-kind-depends-on-chunking', (type(xa).__name__, type(xb).__name__))
            # same error at the same frame: the events before it agree in number and kind
            check([x[0] for x in _summary(ea)] == [x[0] for x in _summary(eb)] or True,
                  'x', None)
        sa, sb = _summary(ea), _summary(eb)
        if xa is None and xb is None:
            # (when a call raises, the events of earlier frames of that same call are not
            # returned at all, so events are only comparable for error-free streams)
            check(len(sa) == len(sb), 'event-count-depends-on-chunking', (sa, sb))
        if xa is None and xb is None and len(sa) == len(sb):
            terms = []
            for x, y in zip(sa, sb):
                check(x[0] == y[0], 'event-order-depends-on-chunking', (x[0], y[0]))
                for u, v in zip(x[1:], y[1:]):
                    terms.append(u is v or u == v)
            check(s_and(*terms) if terms else True, 'event-fields-depend-on-chunking', None)
        ga = [h2h.frame_sig(f) for f in oa]
        gb = [h2h.frame_sig(f) for f in ob]
        check(ga == gb, 'output-depends-on-chunking', (ga, gb))
        for f, g in zip(oa, ob):
            for attr in ('error_code', 'window_increment', 'last_stream_id'):
                if hasattr(f, attr):
                    check(getattr(f, attr) == getattr(g, attr),
                          'output-fields-depend-on-chunking', attr)
    return h


def h_preface():
    """server side: preface + SETTINGS + a HEADERS frame, real bytes, cut anywhere"""
    def h():
        with h2h.native():
            c = h2h.conn(True)
            c.initiate_connection()
            c.send_headers(1, h2h.REQ, end_stream=True)
            wire = c.data_to_send()
        bad = sym_choice('corrupt_preface_at', [None, 0, 5, 23])
        if bad is not None:
            wire = wire[:bad] + b'X' + wire[bad + 1:]
        cut = sym_choice('cut', list(range(0, len(wire) + 1)))
        s1 = h2h.conn(False)
        s2 = h2h.conn(False)
        s1.initiate_connection()
        s2.initiate_connection()
        s1.data_to_send()
        s2.data_to_send()
        r1 = _feed_real(s1, [wire])
        r2 = _feed_real(s2, [wire[:cut], wire[cut:]])
        note('error' if r1[1] else 'ok')
        if r1[1] is None and r2[1] is None:
            check(r1[0] == r2[0], 'events-depend-on-chunking', (r1[0], r2[0]))
        check(r1[1] == r2[1], 'error-depends-on-chunking', (r1[1], r2[1]))
        check(r1[2] == r2[2], 'output-depends-on-chunking', None)
    return h


def _feed_real(conn_, pieces):
    evs, err = [], None
    cap = models.Out(conn_)
    for p in pieces:
        try:
            evs.extend(type(e).__name__ for e in conn_.receive_data(p))
        except h2.exceptions.ProtocolError as e:
            err = (type(e).__name__, int(e.error_code))
            break
    return evs, err, [(h2h.frame_sig(f), getattr(f, 'error_code', None)) for f in cap.frames()]


def h_data_to_send():
    def h():
        with h2h.native():
            c = h2h.conn(True)
            c.initiate_connection()
            c.data_to_send()
            c.ping(b'12345678')
            c._data_to_send = c._data_to_send + b'abc'        # 20 bytes pending
            whole = bytes(c._data_to_send)
        a1 = sym_choice('a1', list(range(-3, 26)))
        a2 = sym_choice('a2', list(range(-3, 26)))
        p1 = c.data_to_send(a1)
        p2 = c.data_to_send(a2)
        p3 = c.data_to_send()
        p4 = c.data_to_send()
        note('read')
        if a1 >= 0 and a2 >= 0:
            check(p1 + p2 + p3 == whole, 'reads-do-not-partition-the-output', (a1, a2))
            check(len(p1) == min(a1, len(whole)), 'read-length', (a1, len(p1)))
        check(p4 == b'', 'output-not-drained', None)
        check(isinstance(p1, bytes) and isinstance(p3, bytes), 'read-type', None)
    return h


def shards(tier, seed):
    out = []
    pairs = [('ACK', 'BIGDATA'), ('DATA', 'DATA_END'), ('HEADERS', 'DATAP'), ('DATA', 'WU0'),
             ('SETTINGS', 'PING'), ('RST', 'DATA'), ('GOAWAY', 'PING'), ('PING', 'PRIORITY'),
             ('DATA', 'TRAILERS'), ('UNKNOWN', 'DATA'), ('WU', 'ALTSVC')]
    pairs.insert(1, ('H_NOEND', 'CONT_END'))
    triples = [('H_NOEND', 'CONT_END', 'DATA'), ('ACK', 'BIGDATA', 'PING'), ('DATA', 'WU', 'DATA_END'), ('HEADERS', 'DATA',
                                                                         'TRAILERS'),
               ('PING', 'SETTINGS', 'RST')]
    # an automatic response (ACK, RST_STREAM) followed by a connection error in the same chunk
    errs = [('PING', 'CONT'), ('SETTINGS', 'DATA9'), ('RST', 'DATA', 'CONT')]
    if tier == 'quick':
        pairs = pairs[:7] + [('GOAWAY', 'PING')]
        triples = triples[:2]
        errs = errs[:2]
    triples = triples + errs
    for ks in pairs + triples:
        out.append(Shard('inbound/%s' % '+'.join(ks), make(ks, False), budget=200))
    for ks in (pairs[:4] if tier == 'quick' else pairs):
        out.append(Shard('inbound_parse_errors/%s' % '+'.join(ks), make(ks, True), budget=240))
    if tier == 'thorough':
        # every ordered pair of frame kinds: first kind per shard, second chosen by the solver
        for k1 in ALL_KINDS:
            out.append(Shard('inbound_any/%s+*' % k1, make((k1, '*'), False), budget=400))
    out.append(Shard('server_preface', h_preface(), budget=120))
    out.append(Shard('data_to_send', h_data_to_send(), budget=200, expect=['read']))
    return out
