"""C06 -- stream lifecycle follows the RFC 7540 section 5.1 state machine."""
from engine.core import check, note
from engine.observer import (IDLE, RES_LOCAL, RES_REMOTE, OPEN, HCL, HCR, CLOSED)
from props import fsm_common as F

MODELS = ['fmt_stub', 'HfSerialize', 'FrameFeed', 'LenBytes']
BOUNDS = {
    'histories': 'every witness history of the catalogue (native BFS over 21 state-changing '
                 'operations on stream 1, plus the push slice with streams 1+2) up to the depth '
                 'reported in the evidence, followed by ONE more operation from the full '
                 'alphabet with symbolic numeric arguments (lengths, codes, increments)',
    'roles': 'client and server; normal and h2c-upgraded connections',
    'header blocks': 'concrete by kind (request, response, informational, trailers)',
}
OUTSIDE = ['more than two stream slots; header content (C14/C15); flow-control refusals '
           '(C03/C04: DATA always fits the windows here)']
ASSUMPTIONS = [
    'reference = engine/observer.py (RFC 7540 5.1 tracker fed only with emitted frames and '
    'accepted peer frames) + the expectation table below',
    'documented leniencies accepted by the oracle: DATA on any closed stream is a stream error '
    '(changelog 3.1.0 / _handle_data_on_closed_stream); WINDOW_UPDATE and RST_STREAM on closed or '
    'forgotten streams are ignored ("we don\'t have a clock"); RST_STREAM on a never-used id is '
    'ignored (source comment in _receive_rst_stream_frame); frames on a stream closed by '
    'RST_STREAM are stream errors; DATA on reserved streams is a stream error',
]

PE, SC, FC = 1, 5, 3   # PROTOCOL_ERROR, STREAM_CLOSED, FLOW_CONTROL_ERROR
ACCEPT = ('accept',)
OK = ('ok',)
REFUSED = ('refused',)


def norm(cls):
    if cls[0] == 'stream_error':
        return ('stream_error', cls[1])
    if cls[0] == 'refused':
        return REFUSED
    return cls


def _by_rst(v):
    return v.closed_by in ('send_rst', 'recv_rst')


def expect(pre, op):
    """set of allowed outcome classes, or None when the RFC and the property leave the
    case open"""
    t = op[0]
    client = pre.client
    closed_conn = pre.conn_closed is not None
    if t in ('HEADERS', 'DATA', 'RST', 'WU', 'CONT') and closed_conn:
        return {('conn_error', PE)}
    if t in ('send_headers', 'send_data', 'end_stream', 'reset', 'wu') and closed_conn:
        return {REFUSED}
    if t == 'HEADERS':
        _t, sid, kind, end = op
        v = pre.s(sid)
        own = pre.own(sid)
        if v.st == IDLE:
            if own:
                return {('conn_error', PE)}
            if client:
                return {('conn_error', PE)}          # even id never promised
            if kind == 'req':
                return {ACCEPT}
            return {('conn_error', PE)}
        if v.st == RES_LOCAL:
            return {('conn_error', PE)}
        if v.st == RES_REMOTE:
            if kind == 'resp':
                return {ACCEPT}
            if kind == 'info':
                return None
            return {('conn_error', PE)}
        if v.st in (OPEN, HCL):
            if not v.hr:
                if kind == 'info':
                    return {('conn_error', PE)} if end else {ACCEPT}
                if kind == 'resp':
                    return {ACCEPT}
                return {('conn_error', PE)}
            if not v.tr:
                if kind == 'trailers' and end:
                    return {ACCEPT}
                return {('conn_error', PE)}
            return {('conn_error', PE)}
        # a 1xx block carrying END_STREAM is malformed whatever the state: the malformed-
        # message PROTOCOL_ERROR is accepted next to the state-based error
        malformed = {('conn_error', PE)} if (kind == 'info' and end) else set()
        if v.st == HCR:
            return {('stream_error', SC)} | malformed
        if v.st == CLOSED:
            if _by_rst(v):
                return {('stream_error', SC)} | malformed
            if v.closed_by in ('send_es', 'recv_es'):
                return {('conn_error', SC)} | malformed
            return {('conn_error', PE)}              # implicitly closed / never opened
    if t == 'DATA':
        _t, sid, end = op
        v = pre.s(sid)
        if v.st == IDLE:
            return {('conn_error', PE)}
        if v.st in (RES_LOCAL, RES_REMOTE):
            return {('stream_error', SC), ('conn_error', PE)}
        if v.st in (OPEN, HCL):
            return {ACCEPT} if v.hr else {('conn_error', PE)}
        if v.st == HCR:
            return {('stream_error', SC)}
        return {('stream_error', SC)}
    if t == 'RST':
        v = pre.s(op[1])
        if v.st == IDLE:
            return {ACCEPT, ('conn_error', PE)}
        return {ACCEPT}
    if t == 'WU':
        over = len(op) > 2          # increment 2^31-1: overflows whatever the window is
        if op[1] == 0:
            return {('conn_error', FC)} if over else {ACCEPT}
        v = pre.s(op[1])
        if v.st == IDLE:
            return {('conn_error', PE)}
        if over and v.st != CLOSED:
            return {('stream_error', FC)}       # RFC 7540 6.9.1
        return {ACCEPT}
    if t == 'PP':
        _t, parent, promised = op
        if closed_conn or not client:
            return {('conn_error', PE)}
        v = pre.s(parent)
        # what the parent's state alone prescribes
        if parent % 2 == 0:                           # a pushed stream cannot be a parent
            if v.st == CLOSED and v.closed_by == 'send_rst':
                by_parent = {('conn_error', PE), ('stream_error', 7)}
            else:
                by_parent = {('conn_error', PE)}
        elif v.st in (OPEN, HCL) and v.requester:
            by_parent = {ACCEPT}
        elif v.st == CLOSED and v.closed_by == 'send_rst':
            by_parent = {('stream_error', 7)}         # racing our reset: REFUSED_STREAM
        elif v.st == HCR:
            return None                               # see F-C06-2 (agreement check)
        else:
            by_parent = {('conn_error', PE)}
        if promised > pre.highest_in:
            return by_parent
        # the promised id is not idle (RFC 7540 6.6): classified like any reuse of a stream
        # id (5.1.1 / C09); a dead parent's own connection error is as good
        pv = pre.s(promised)
        if pv.st == CLOSED and _by_rst(pv):
            stale = {('stream_error', SC)}
        elif pv.st == CLOSED and pv.closed_by in ('send_es', 'recv_es'):
            stale = {('conn_error', SC)}
        else:
            stale = {('conn_error', PE)}
        return stale | set(x for x in by_parent if x[0] == 'conn_error')
    if t == 'CONT':
        v = pre.s(op[1])
        if v.st == CLOSED:
            return {('conn_error', PE), ('stream_error', SC), ('conn_error', SC)}
        return {('conn_error', PE)}
    # ---------------------------------------------------------------- local actions
    if t == 'send_headers':
        _t, sid, kind, end = op
        v = pre.s(sid)
        own = pre.own(sid)
        if v.st == IDLE:
            if client and own and sid > pre.highest_out and kind in ('req', 'post', 'head'):
                return {OK}
            return {REFUSED}
        if v.st == RES_REMOTE:
            return {REFUSED}
        if v.st == RES_LOCAL:
            if kind == 'resp':
                return {OK}
            if kind == 'info':
                return None
            return {REFUSED}
        if v.st in (OPEN, HCR):
            if v.requester:
                if kind == 'trailers' and end and not v.ts:
                    return {OK}
                return {REFUSED}
            if not v.hs:
                if kind == 'info':
                    return {REFUSED} if end else {OK}
                if kind in ('resp', 'resp204'):
                    return {OK}
                return {REFUSED}
            if kind == 'trailers' and end and not v.ts:
                return {OK}
            return {REFUSED}
        return {REFUSED}
    if t in ('send_data', 'end_stream'):
        v = pre.s(op[1])
        if v.st in (OPEN, HCR) and v.hs and not v.ts:
            return {OK}
        return {REFUSED}
    if t == 'reset':
        v = pre.s(op[1])
        if v.st in (IDLE, CLOSED):
            return {REFUSED}
        return {OK}
    if t == 'push':
        _t, parent, promised = op
        v = pre.s(parent)
        ok = (not client and not closed_conn and parent % 2 == 1 and v.st in (OPEN, HCR) and
              v.requester is False and promised % 2 == 0 and promised > pre.highest_out)
        return {OK} if ok else {REFUSED}
    if t == 'wu':
        if op[1] == 0:
            return {OK}
        v = pre.s(op[1])
        if v.st in (IDLE, CLOSED):
            return {REFUSED}
        return {OK}
    return None


STATS = {}


def state_tag(pre, op):
    if len(op) > 1 and isinstance(op[1], int) and op[1] > 0:
        v = pre.s(op[1])
        who = {True: 'requester', False: 'responder', None: '-'}[v.requester]
        return '%s/%s/hs%d.ts%d.hr%d.tr%d/%s%s' % (
            v.st, who, v.hs, v.ts, v.hr, v.tr, v.closed_by or '-',
            '/parent-of-push-on-half-closed(remote)' if getattr(v, 'pp_on_hcr', False) else '')
    return 'conn'


def op_tag(op):
    if op[0] in ('HEADERS', 'send_headers'):
        return '%s.%s.%s' % (op[0], op[2], 'es' if op[3] else 'noes')
    if op[0] in ('DATA', 'send_data'):
        return '%s.%s' % (op[0], 'es' if op[2] else 'noes')
    return op[0]


def judge(pre, op, out, ctx):
    allowed = expect(pre, op)
    got = norm(out.cls)
    if got[0] == 'crash':
        check(False, 'crash:%s:%s' % (got[1], op[0]), F.op_label(op))
        return
    if allowed is None:
        note('unspecified')
        return
    note(got[0])
    if pre.conn_closed is not None and got[0] == 'conn_error':
        got = ('conn_error', PE)       # the code of an error on a dead connection is moot
    check(got in allowed,
          'rfc51:%s@%s%s:%s' % (op_tag(op), 'closed-conn:' if pre.conn_closed else '',
                                state_tag(pre, op), '.'.join(str(x) for x in got)),
          (F.op_label(op), got, sorted(allowed, key=repr)))


_STATE_NAMES = {'IDLE': IDLE, 'RESERVED_REMOTE': RES_REMOTE, 'RESERVED_LOCAL': RES_LOCAL,
                'OPEN': OPEN, 'HALF_CLOSED_REMOTE': HCR, 'HALF_CLOSED_LOCAL': HCL,
                'CLOSED': CLOSED}
_CLOSED_BY = {'SEND_END_STREAM': 'send_es', 'RECV_END_STREAM': 'recv_es',
              'SEND_RST_STREAM': 'send_rst', 'RECV_RST_STREAM': 'recv_rst'}


def agreement(ctx, tag='state'):
    """abstraction check: the library's per-stream state (read through the adapter) equals
    the state the observer derived from the observable traffic alone"""
    me, obs = ctx.me, ctx.obs
    if obs.conn_closed is not None:
        return
    for sid in sorted(set(obs.streams) | set(me.streams.keys())):
        v = obs.s(sid)
        st = me.streams.get(sid)
        # precondition of known finding F-C06-2 in this stream's past: say so in the clause
        sfx = '/parent-of-push-on-half-closed(remote)' if getattr(v, 'pp_on_hcr', False) else ''
        if st is None:
            check(v.st in (IDLE, CLOSED), tag + '-disagrees:stream-missing:' + v.st + sfx, sid)
            if v.st == CLOSED and v.closed_by is not None and sid in me._closed_streams:
                got = _CLOSED_BY.get(getattr(me._closed_streams[sid], 'name', None))
                check(got == v.closed_by, tag + '-disagrees:forgotten-closed-by' + sfx, (sid, got,
                                                                                  v.closed_by))
            continue
        name = _STATE_NAMES.get(st.state_machine.state.name)
        check(name == v.st, '%s-disagrees:%s-vs-%s%s' % (tag, name, v.st, sfx), sid)
        if name == CLOSED and v.st == CLOSED and v.closed_by is not None:
            got = _CLOSED_BY.get(getattr(st.closed_by, 'name', None))
            check(got == v.closed_by, tag + '-disagrees:closed-by' + sfx, (sid, got, v.closed_by))


def judge_with_agreement(pre, op, out, ctx):
    judge(pre, op, out, ctx)
    if out.cls[0] not in ('refused', 'crash'):
        agreement(ctx)


def shards(tier, seed):
    return F.standard_shards(tier, seed, judge_with_agreement)
