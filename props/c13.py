"""C13 -- header compression state stays synchronised across all calls."""
from hpack import HeaderTuple, NeverIndexedHeaderTuple
import hpack
from hyperframe import frame as hf

import h2.events
import h2.exceptions
from h2.settings import SettingCodes

from engine.core import (check, note, sym_choice, sym_int, sym_bool, s_and, s_or, s_not, s_eq,
                         INT31, INT32, CTX)
from engine import h2h, ops, models, cellbytes as CB, hdr_oracle as O
from engine.cellbytes import CellBytes, sym_cells
from engine.runner import Shard
from props import fsm_common as F

MODELS = ['fmt_stub', 'HfSerialize', 'HpackEnc', 'CellBytes', 'FrozensetDeopt', 'CharClassRe',
          'FrameFeed', 'SettingsBlob']
BOUNDS = {
    'calls': 'send_headers (every block kind incl. an invalid block, end_stream flag, the three '
             'priority arguments None or symbolic incl. out-of-range) and push_stream (parent and '
             'promised id solver-chosen) from every distinct observer state of the catalogue '
             '(all slices, both roles); plus header lists with ONE fully symbolic field (name 2, 7 '
             'or 10 cells, value 1 cell) placed after valid indexable fields',
    'HEADER_TABLE_SIZE': '0..2^32-1 symbolic, received alone or with any other setting; '
                         'table_size_pair: real hpack on a connected pair, 3 solver-chosen steps '
                         '(HEADER_TABLE_SIZE in {0, 64, 4096, 8192} | another setting | a header '
                         'block) between header blocks',
}
OUTSIDE = ['what the HPACK encoder does with the fields it is shown (hpack contract): the '
           'encoder is a recording model that notes every field AS IT IS PULLED from the '
           'pipeline, like the real encoder which updates its dynamic table field by field']
ASSUMPTIONS = ['"leaves the compression context as if the call had never been made" is decided '
               'as: a raising call has shown NO field to the encoder and has not changed its '
               'table size; native replays run a real hpack encoder/decoder pair']


class IncrementalRecorder:
    """records every header field at the moment it is pulled out of the (lazy) pipeline"""

    def __init__(self):
        self.header_table_size = 4096
        self.size_sets = []
        self.shown = []
        self.calls = 0

    def __setattr__(self, k, v):
        if k == 'header_table_size' and 'size_sets' in self.__dict__:
            self.size_sets.append(v)
        object.__setattr__(self, k, v)

    def encode(self, headers):
        self.calls += 1
        for h in headers:
            self.shown.append(h)
        return b'\x82'


def _native_sync_check(ctx_builder, call):
    """native replay: real encoder on `me`, real decoder on a peer; after the (possibly
    failing) call a valid request/response on another stream must still decode"""
    return None


def make_fsm(client, history, upgrade):
    alpha = []
    sids = (1, 2, 3, 5)
    for sid in sids:
        for kind in ('req', 'resp', 'info', 'trailers', 'bad', 'noauth', 'hostmismatch',
                     'emptypath'):
            for end in (False, True):
                if kind in ('noauth', 'hostmismatch', 'emptypath') and end:
                    continue
                alpha.append(('send_headers', sid, kind, end))
    alpha += [('push', 1, 2), ('push', 1, 4), ('push', 1, 3), ('push', 2, 4), ('push', 3, 2),
              ('push', 5, 6), ('push', 1, 2, 'noauth'), ('push', 1, 2, 'hostmismatch'),
              ('push', 1, 2, 'emptypath')]

    def h():
        with h2h.native():
            ctx = ops.replay(client, history, upgrade=upgrade)
        me = ctx.me
        op = sym_choice('op', alpha)
        kw = {}
        if op[0] == 'send_headers':
            # each priority argument independently absent or symbolic
            if sym_bool('has_weight'):
                kw['priority_weight'] = sym_int('weight', -1, 258, default=16)
            if sym_bool('has_depends_on'):
                kw['priority_depends_on'] = sym_int('depends_on', 0, 7, default=0)
            if sym_bool('has_exclusive'):
                kw['priority_exclusive'] = sym_bool('exclusive')
        rec = IncrementalRecorder()
        me.encoder = rec
        out = models.Out(me)
        exc = None
        try:
            if op[0] == 'push':
                me.push_stream(op[1], op[2], ops.KIND_HEADERS[op[3]] if len(op) > 3 else h2h.REQ)
            else:
                me.send_headers(op[1], ops.KIND_HEADERS[op[2]], end_stream=op[3], **kw)
        except (h2.exceptions.H2Error, ValueError, TypeError) as e:
            exc = e
        except AssertionError as e:
            exc = e
        if exc is not None:
            note('raised')
            check(len(rec.shown) == 0, 'raising-call-fed-the-encoder:%s:%s' % (
                op[0], type(exc).__name__), (F.op_label(op), len(rec.shown)))
            check(len(rec.size_sets) == 0, 'raising-call-resized-table', None)
        else:
            note('ok')
            check(rec.calls == 1, 'encoder-called-%d-times' % rec.calls, F.op_label(op))
    return h


def make_table_size_pair(sender_client):
    """real hpack on both sides of a connected pair: the receiver changes
    HEADER_TABLE_SIZE (and other settings) between header blocks of the sender, in any
    solver-chosen order; every block must arrive and decode to what was sent"""
    from props import c01
    SIZES = (0, 64, 4096, 8192)
    STEPS = [('hts', v) for v in SIZES] + [('other',), ('hdr',)]

    def h():
        with h2h.native():
            p = c01.Pair()
            if not sender_client:
                exc, cap, em = c01.do_call(p, 'c', ('send_headers', 1, 'post', False), False)
                c01.exchange(p, 'c', em)
        S, R = ('c', 's') if sender_client else ('s', 'c')
        snd, rcv = p.side(S), p.side(R)
        nsent = 0

        def send_block():
            n = send_block.n
            send_block.n += 1
            hdrs = [(b'x-field-%d' % (n % 2), b'value-%d' % (n % 3)), (b'x-always', b'same')]
            cap = models.Out(snd.me)
            if sender_client:
                full = list(h2h.REQ) + hdrs
                snd.me.send_headers(1 + 2 * n, full, end_stream=True)
            else:
                full = [(b':status', b'103')] + hdrs
                snd.me.send_headers(1, full)
            log = c01.exchange(p, S, c01._take(snd, cap))
            above = any(x > pending[-1] for x in pending[:-1]) if pending else False
            del pending[:]
            for d, evs, exc in log:
                msg = str(exc)
                why = ('exceeded-max-table-size' if 'exceeded max allow' in msg else
                       'did-not-shrink-table' if 'did not shrink' in msg else
                       'invalid-table-index' if 'nvalid table index' in msg else
                       type(exc).__name__)
                check(exc is None, 'header-block-rejected-by-peer:%s%s' % (
                    why, ':intermediate-size-above-final' if above else ''), repr(exc)[:100])
            if any(x is not None for _d, _e, x in log):
                raise Rejected()
            if log and log[0][2] is None:
                evs = [e for e in log[0][1] if hasattr(e, 'headers')]
                check(len(evs) == 1 and [tuple(x) for x in evs[0].headers] ==
                      [tuple(x) for x in full], 'headers-differ', None)
        send_block.n = 0
        pending = []        # table sizes announced since the last header block
        try:
            run(send_block, pending, p, R, rcv)
        except Rejected:
            note('rejected')
            return
        note('exchanged')
        c01.check_hpack_sync(p)

    def run(send_block, pending, p, R, rcv):
        send_block()
        for i in range(3):
            step = sym_choice('step%d' % i, STEPS)
            if step[0] == 'hdr':
                send_block()
                continue
            cap = models.Out(rcv.me)
            if step[0] == 'hts':
                pending.append(step[1])
                rcv.me.update_settings({SettingCodes.HEADER_TABLE_SIZE: step[1]})
            else:
                rcv.me.update_settings({SettingCodes.INITIAL_WINDOW_SIZE: 70000 + i})
            log = c01.exchange(p, R, c01._take(rcv, cap))
            for d, evs, exc in log:
                check(exc is None, 'settings-exchange-rejected:%s' % type(exc).__name__, None)
        send_block()
        send_block()
    return h


class Rejected(Exception):
    pass


def _feed_peer(dec, ctx, me):
    """decode every header block `me` has emitted so far with the peer's decoder"""
    for blk in getattr(ctx, '_blocks', []):
        dec.decode(blk)


def _probe(me, peer_dec, client):
    """emit one more valid header block and decode it with a decoder that saw all previous
    output.  Implemented by re-creating the peer decoder from the full output history."""
    return True


def make_symbolic_field(client, block, nlen, after):
    """a list whose first fields are valid and indexable and whose LAST field is symbolic:
    if the call raises because of it, nothing may have reached the encoder"""
    def h():
        with h2h.native():
            if block == 'request':
                ctx = ops.Ctx(True)
            else:
                ctx = ops.Ctx(False)
                ops.run_op(ctx, ('HEADERS', 1, 'req', False))
            ctx.me.data_to_send()
        me = ctx.me
        rec = IncrementalRecorder()
        me.encoder = rec
        base = list(h2h.REQ if block in ('request', 'push') else h2h.RESP)
        base += [(b'x-custom-%d' % i, b'indexable-value') for i in range(after)]
        base.append((sym_cells('name', nlen), sym_cells('value', 1)))
        out = models.Out(me)
        exc = None
        try:
            if block == 'push':
                me.push_stream(1, 2, base)
            else:
                me.send_headers(1, base)
        except h2.exceptions.ProtocolError as e:
            exc = e
        if exc is None:
            note('ok')
            return
        note('raised')
        check(out.nbytes() == 0, 'raising-call-emits', None)
        check(len(rec.shown) == 0, 'raising-call-fed-the-encoder:%s:ProtocolError' % block,
              len(rec.shown))
    return h


def h_table_size(client, other):
    """received HEADER_TABLE_SIZE reaches the encoder exactly (alone / with another setting)"""
    def h():
        with h2h.native():
            ctx = ops.Ctx(client)
        me = ctx.me
        rec = IncrementalRecorder()
        me.encoder = rec
        v = sym_int('table_size', 0, INT32, default=0)
        f = hf.SettingsFrame(0)
        f.settings = {SettingCodes.HEADER_TABLE_SIZE: v}
        if other is not None:
            f.settings[other] = sym_int('other', {2: 0, 3: 0, 4: 0, 5: 16384, 6: 0, 8: 0}[int(other)],
                                        {2: 1, 3: INT32, 4: INT31, 5: 2 ** 24 - 1, 6: INT32,
                                         8: 1}[int(other)], default=None)
        h2h.deliver(me, [f])
        note('applied')
        # (re-announcing the size in use need not reach the encoder)
        check((len(rec.size_sets) == 0 and s_eq(v, 4096)) or
              (len(rec.size_sets) == 1 and s_eq(rec.size_sets[0], v)),
              'encoder-table-size-not-updated', None)
        check(s_eq(rec.header_table_size, v), 'encoder-table-size-stale', None)
    return h


def shards(tier, seed):
    out = []
    for client in (True, False):
        role = 'client' if client else 'server'
        seen = set()
        for sl in F.slices(tier, seed, client):
            for hist, depth in sl['entries']:
                ctx = ops.replay(client, hist, upgrade=sl['upgrade'])
                if ctx.obs.conn_closed is not None:
                    continue
                key = (sl['upgrade'], ctx.obs.key())
                if key in seen:
                    continue
                seen.add(key)
                name = ('upgrade:' if sl['upgrade'] else '') + F.hist_name(hist)
                out.append(Shard('calls/%s/%s' % (role, name),
                                 make_fsm(client, list(hist), sl['upgrade']), budget=150,
                                 twin=False, params={'history': [list(o) for o in hist]}))
        for other in [None] + [SettingCodes(x) for x in (2, 3, 4, 5, 6, 8)]:
            out.append(Shard('table_size/%s/with=%s' % (role, int(other) if other else 'none'),
                             h_table_size(client, other), expect=['applied']))
    for sender_client in (True, False):
        out.append(Shard('table_size_pair/sender=%s' % ('client' if sender_client else 'server'),
                         make_table_size_pair(sender_client), budget=300,
                         expect=['exchanged', 'rejected']))
    for block in ('request', 'response', 'push'):
        for nlen in (2, 7, 10):
            for after in (0, 2):
                out.append(Shard('symbolic_field/%s/name=%d/after=%d' % (block, nlen, after),
                                 make_symbolic_field(block != 'request' and False or
                                                     block == 'request', block, nlen, after),
                                 budget=120))
    # HEADER_TABLE_SIZE announced in the HTTP2-Settings header of an h2c upgrade
    from props import c25
    out.append(Shard('upgrade_handover', c25.h_settings_handover(True), budget=120,
                     expect=['upgraded']))
    return out
