"""C17 -- arbitrary peer bytes never produce a non-protocol exception."""
from hpack import HeaderTuple
import hpack.exceptions
from hyperframe import frame as hf

import h2.events
import h2.exceptions

from engine.core import (check, note, sym_choice, sym_int, sym_bool, s_and, CTX, INT31, INT32)
from engine import h2h, ops, models, cellbytes as CB
from engine.cellbytes import sym_cells
from engine.models import sym_bytes
from engine.runner import Shard
from props import fsm_common as F
from props import c15, c18
from props.c27 import DecoderModel

MODELS = ['fmt_stub', 'HfSerialize', 'FrameFeed', 'HpackDec', 'CellBytes', 'FrozensetDeopt',
          'CharClassRe', 'LenBytes', 'AbsWire']
BOUNDS = {
    'composition': 'for every behaviour the contracts of hyperframe and hpack allow, h2 itself '
                   'raises only ProtocolError: (1) every catalogue entry x every peer frame of '
                   'the alphabet incl. padded DATA / PRIORITY-flagged HEADERS with symbolic fields, '
                   'under the default, validation-off and header_encoding configurations; (2) the '
                   'decoder returning header lists with a fully symbolic field (C15 shards, '
                   'exception class only) or raising any hpack exception; (3) the frame parser '
                   'failing in any way the real FrameBuffer can report; (4) CONTINUATION chains '
                   'around the backlog limit; (5) symbolic frame lengths and chunk boundaries on '
                   'the real FrameBuffer (AbsWire shards shared with C21); (6) every distinct '
                   'library stream-state combination of the one-stream catalogue with ALL '
                   'window counters symbolic (within their invariants) x one SETTINGS '
                   '(INITIAL_WINDOW_SIZE 0..2^32-1 + a companion setting) / SETTINGS ACK of a '
                   'local INITIAL_WINDOW_SIZE change / WINDOW_UPDATE 0..2^31-1 / DATA 0..2^24 '
                   '(padded or not) / RST_STREAM; (7) streams opened by a request with Host '
                   'instead of :authority x every peer frame, with and without header_encoding',
}
OUTSIDE = ['what hyperframe / hpack do with concrete malformed bytes (their contract; the '
           'validation tables and native replays use real bytes)']
VALIDATORS = [CB.validate_cellbytes, CB.validate_upper_re]
ASSUMPTIONS = ['hyperframe raises only InvalidFrameError / InvalidDataError / InvalidPaddingError '
               'from parsing; hpack raises only the classes exported by hpack.exceptions']


def judge(pre, op, out, ctx):
    if not op[0].isupper():
        note('api')
        return
    note(out.cls[0])
    if out.exc is not None:
        check(isinstance(out.exc, h2.exceptions.ProtocolError),
              'non-protocol-exception:%s:%s' % (type(out.exc).__name__, op[0]), F.op_label(op))


def extra_frames(client, sids):
    A = []
    for sid in sids:
        A += [('DATAP', sid, False), ('DATAP', sid, True), ('HEADERSP', sid, 'req', False),
              ('HEADERSP', sid, 'resp', True)]
    return A


def cfg_shards(tier, seed, cfg, tag):
    out = []
    for client in (True, False):
        cat = F.get_catalogue(client, 3 if tier == 'thorough' else 2, cfg=cfg)
        sel = F.select_entries(cat[0], tier, seed, quick_depth=2, quick_sample=0,
                               thorough_cap=120)
        alpha = [o for o in F.alphabet(client, sids=(1, 2, 3), push=True) if o[0].isupper()]
        alpha += extra_frames(client, (1, 2, 3))
        out += F.entry_shards(tag, client, sel, alpha, judge, cfg=cfg)
    return out


def make_numeric(client, history, cfg):
    """FSM state x numeric state: the endpoint is in the state reached by `history`, every
    flow-control window it keeps (connection and streams, both directions) holds an arbitrary
    value allowed by its invariant, and ONE frame with full-range numeric fields arrives"""
    from engine.core import assume_z, s_le
    from h2.settings import SettingCodes

    def h():
        with h2h.native():
            ctx = ops.replay(client, history, cfg=cfg)
        me = ctx.me
        A = h2h.Adapter
        A.set_conn_out_window(me, sym_int('cw', 0, INT31, default=65535))
        sids = sorted(me.streams)
        for sid in sids:
            A.set_stream_out_window(me, sid, sym_int('sw%d' % sid, -INT31 - 1, INT31,
                                                     default=65535))
            cur = sym_int('iw%d' % sid, -INT31 - 1, INT31, default=65535)
            mx = sym_int('im%d' % sid, 0, INT31, default=65535)
            assume_z(s_and(s_le(cur, mx), s_le(mx - cur, INT31)))
            A.set_wm(A.stream_wm(me, sid), cur, mx, sym_int('ip%d' % sid, 0, INT31, default=0))
        ccur = sym_int('icw', 0, INT31, default=65535)
        cmx = sym_int('icm', 0, INT31, default=65535)
        assume_z(s_le(ccur, cmx))
        A.set_wm(A.conn_wm(me), ccur, cmx, sym_int('icp', 0, INT31, default=0))
        kinds = ['SETTINGS', 'SETTINGS_ACK', 'WU0'] + \
            [k + str(sid) for sid in sids for k in ('WU', 'DATA', 'RST')]
        kind = sym_choice('frame', kinds)
        frames = []
        if kind == 'SETTINGS':
            f = hf.SettingsFrame(0)
            f.settings = {4: sym_int('iws', 0, INT32, default=65536)}
            h2h.sym_companion(f.settings, role_client=not client)
            frames = [f]
        elif kind == 'SETTINGS_ACK':
            me.update_settings({SettingCodes.INITIAL_WINDOW_SIZE:
                                sym_int('local_iws', 0, INT31, default=1)})
            me.data_to_send()
            f = hf.SettingsFrame(0)
            f.flags.add('ACK')
            frames = [f]
        elif kind.startswith('WU'):
            f = hf.WindowUpdateFrame(int(kind[2:]))
            f.window_increment = sym_int('inc', 0, INT31, default=1)
            frames = [f]
        elif kind.startswith('DATA'):
            f = hf.DataFrame(int(kind[4:]))
            f.data = sym_bytes('dlen', 0, 2 ** 24 - 300, default=3)
            if sym_bool('padded'):
                f.flags.add('PADDED')
                f.pad_length = sym_int('pad', 0, 255, default=0)
            if sym_bool('end'):
                f.flags.add('END_STREAM')
            frames = [f]
        else:
            f = hf.RstStreamFrame(int(kind[3:]))
            f.error_code = sym_int('code', 0, INT32, default=8)
            frames = [f]
        try:
            h2h.deliver(me, frames)
        except h2.exceptions.ProtocolError:
            note('protocol-error')
        except Exception as e:      # noqa
            note('raised')
            check(False, 'non-protocol-exception:%s:%s' % (type(e).__name__, kind), repr(e)[:120])
        else:
            note('returned')
    return h


def h_settings_twice(client):
    """two SETTINGS frames, each carrying one solver-chosen setting (the same id twice, or two
    different ones; known or unknown) with an arbitrary 32-bit value: whatever the second
    meets in the state the first one left, only ProtocolError may come out"""
    def h():
        with h2h.native():
            ctx = ops.Ctx(client)
            ops.run_op(ctx, ('send_headers' if client else 'HEADERS', 1, 'req', False))
            ctx.me.data_to_send()
        ids = [1, 2, 3, 4, 5, 6, 8, 9]
        frames = []
        for i in range(2):
            f = hf.SettingsFrame(0)
            k = sym_choice('id%d' % i, ids)
            f.settings = {k: sym_int('value%d' % i, 0, INT32, default=1)}
            frames.append(f)
        together = sym_bool('one_call')
        try:
            if together:
                h2h.deliver(ctx.me, frames)
            else:
                h2h.deliver(ctx.me, frames[:1])
                h2h.deliver(ctx.me, frames[1:])
        except h2.exceptions.ProtocolError:
            note('protocol-error')
        except Exception as e:      # noqa
            note('raised')
            check(False, 'non-protocol-exception:%s:SETTINGS+SETTINGS' % type(e).__name__,
                  repr(e)[:120])
        else:
            note('returned')
    return h


def numeric_shards(tier, seed):
    out = []
    for client in (True, False):
        role = 'client' if client else 'server'
        cat = F.get_catalogue(client, 9 if tier == 'thorough' else 3)
        seen = set()
        for hist, depth in cat[0]:
            ctx = ops.replay(client, hist)
            if ctx.obs.conn_closed is not None or not ctx.me.streams:
                continue
            # one representative per (library stream state, still tracked?) combination
            key = tuple(sorted((sid, st.state_machine.state, st.closed_by)
                               for sid, st in ctx.me.streams.items()))
            if key in seen:
                continue
            seen.add(key)
            out.append(Shard('numeric/%s/%s' % (role, F.hist_name(hist)),
                             make_numeric(client, list(hist), None), budget=150, twin=False,
                             params={'history': [list(o) for o in hist]}))
    return out


def host_only_shards(tier, seed):
    """streams whose request carried Host instead of :authority (the stream then has no
    authority of its own), every peer frame, with and without header_encoding"""
    out = []
    for cfg, tag in ((None, 'default'), ({'header_encoding': 'utf-8'}, 'encoding')):
        for client in (True, False):
            first = ('send_headers' if client else 'HEADERS', 1, 'reqhost', False)
            hists = [[first]]
            if client:
                hists.append([first, ('HEADERS', 1, 'resp', False)])
            else:
                hists.append([first, ('send_headers', 1, 'resp', False)])
            alpha = [o for o in F.alphabet(client, sids=(1,), push=True) if o[0].isupper()]
            alpha += extra_frames(client, (1,))
            out += F.entry_shards('host_only_' + tag, client, [(h, len(h)) for h in hists], alpha,
                                  judge, cfg=cfg)
    return out


def h_decoder_symbolic(block, cfg, nlen, vlen):
    """C15's symbolic-field harness, judged for the exception class only"""
    inner = c15.make(block, cfg, 'extra', nlen, vlen)

    def h():
        try:
            inner()
        except (h2.exceptions.ProtocolError,) as e:      # pragma: no cover
            raise
    return inner


def h_hpack_raises(client):
    def h():
        with h2h.native():
            ctx = c18._ctx(client)
        names = [n for n in dir(hpack.exceptions)
                 if isinstance(getattr(hpack.exceptions, n), type) and
                 issubclass(getattr(hpack.exceptions, n), Exception)]
        name = sym_choice('hpack_error', sorted(names))
        ctx.me.decoder = DecoderModel(getattr(hpack.exceptions, name))
        which = sym_choice('frame', ['HEADERS', 'PUSH_PROMISE'] if client else ['HEADERS'])
        if which == 'HEADERS':
            f = hf.HeadersFrame(1 if client else 5)
        else:
            f = hf.PushPromiseFrame(1)
            f.promised_stream_id = 2
        f.data = sym_bytes('blen', 0, 100, default=2)
        f.flags.add('END_HEADERS')
        try:
            h2h.deliver(ctx.me, [f])
            check(False, 'undecodable-block-accepted', name)
        except h2.exceptions.ProtocolError:
            note(name)
        except Exception as e:       # noqa
            check(False, 'non-protocol-exception:%s:hpack-%s' % (type(e).__name__, name), None)
    return h


def h_weird_header_lists(client, enc):
    """decoder returns structurally odd lists: empty list, only regular fields, duplicated /
    missing pseudo-headers, empty names and values, non-UTF-8"""
    LISTS = [[], [(b'', b'')], [(b'', b'x')], [(b':status', b'')], [(b':status', b'\xff')],
             [(b':method', b'GET')], [(b':path', b'')], [(b'a', b'b')] * 3,
             [(b':status', b'200'), (b':status', b'200')],
             [(b':method', b'GET'), (b':scheme', b'https'), (b':authority', b'\xc3'),
              (b':path', b'/')],
             [(b'content-length', b''), (b':status', b'200')],
             [(b':status', b'200'), (b'content-length', b'\xb2')],
             [(b':status', b'200'), (b'content-length', b'-1')],
             [(b':status', b'1'), (b'content-length', b' 5')],
             [(b'\xff\xfe', b'\x00')], [(b':status', b'100'), (b'te', b'')]]

    def h():
        with h2h.native():
            ctx = ops.Ctx(client, cfg={'header_encoding': enc} if enc else None)
            if client:
                ops.run_op(ctx, ('send_headers', 1, 'req', False))
            ctx.me.data_to_send()
        lst = sym_choice('list', list(range(len(LISTS))))
        headers = [HeaderTuple(n, v) for n, v in LISTS[lst]]
        end = sym_bool('end_stream')
        if CTX.mode == 'sym':
            dec = DecoderModel(None)
            dec.decode = lambda data, raw=False: list(headers)
            ctx.me.decoder = dec
            block = sym_bytes('blen', 0, 100, default=2)
        else:
            block = hpack.Encoder().encode(LISTS[lst])
        f = hf.HeadersFrame(1)
        f.data = block
        f.flags.add('END_HEADERS')
        if end:
            f.flags.add('END_STREAM')
        try:
            h2h.deliver(ctx.me, [f])
            note('delivered')
        except h2.exceptions.ProtocolError:
            note('refused')
        except Exception as e:       # noqa
            check(False, 'non-protocol-exception:%s:list-%d' % (type(e).__name__, lst),
                  LISTS[lst])
    return h


def h_continuation_chain(n):
    """n CONTINUATION frames after HEADERS without END_HEADERS through the REAL FrameBuffer"""
    def h():
        import h2.frame_buffer
        fb = h2.frame_buffer.FrameBuffer(server=False)
        first = hf.HeadersFrame(1)
        first.data = b''
        fb._headers_buffer = [first] + [hf.ContinuationFrame(1) for _ in range(n - 1)]
        f = hf.ContinuationFrame(sym_choice('sid', [1, 3]))
        f.data = sym_choice('data', [b'', b'x'])
        end = sym_bool('end_headers')
        if end:
            f.flags.add('END_HEADERS')
        try:
            r = fb._update_header_buffer(f)
            note('buffered')
            if not end:
                # FrameBuffer.__next__ recurses once per swallowed frame: every swallowed
                # frame must count towards the backlog limit, or the recursion is unbounded
                check(r is None and len(fb._headers_buffer) == n + 1,
                      'swallowed-continuation-not-counted', len(fb._headers_buffer))
        except h2.exceptions.ProtocolError:
            note('refused')
        except Exception as e:       # noqa
            check(False, 'non-protocol-exception:%s:continuation' % type(e).__name__, None)
    return h


def shards(tier, seed):
    out = F.standard_shards(tier, seed, judge, alpha_filter=lambda o: o[0].isupper(),
                            closure=False, extra_ops=extra_frames)
    out += cfg_shards(tier, seed, {'header_encoding': 'utf-8'}, 'encoding')
    out += cfg_shards(tier, seed, {'validate_inbound_headers': False,
                                   'normalize_inbound_headers': False}, 'novalidate')
    cfgs = [c15.CFGS[0], c15.CFGS[1], c15.CFGS[4], c15.CFGS[7]]
    for block in ('request', 'response', 'trailers', 'push', 'informational'):
        for cfg in (cfgs if tier == 'thorough' else cfgs[:2]):
            for nlen in ((0, 1, 2, 5, 7, 10) if tier == 'thorough' else (0, 1, 7)):
                out.append(Shard('decoder/%s/%s/name=%d' % (block, c15.cfg_name(cfg), nlen),
                                 c15.make(block, cfg, 'extra', nlen, 1), budget=90,
                                 twin=False))
    for client in (True, False):
        r = 'client' if client else 'server'
        out.append(Shard('hpack_raises/%s' % r, h_hpack_raises(client)))
        out.append(Shard('parse_error/%s' % r, c18.h_parse_error(client)))
        for enc in (None, 'utf-8'):
            out.append(Shard('weird_lists/%s/enc=%s' % (r, enc), h_weird_header_lists(client,
                                                                                      enc)))
    for n in (1, 63, 64, 65):
        out.append(Shard('continuation/n=%d' % n, h_continuation_chain(n)))
    out += numeric_shards(tier, seed)
    out += host_only_shards(tier, seed)
    for client in (True, False):
        out.append(Shard('settings_twice/%s' % ('client' if client else 'server'),
                         h_settings_twice(client), budget=200,
                         expect=['returned', 'protocol-error']))
    return out
