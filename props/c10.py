"""C10 -- concurrent-stream limits are respected and enforced."""
from hyperframe import frame as hf

import h2.events
import h2.exceptions
from h2.settings import SettingCodes

from engine.core import (check, note, sym_int, sym_bool, sym_choice, assume_z, s_le, s_lt, s_and, s_not,
                         INT32, CTX)
from engine import h2h, ops, models
from engine.observer import OPEN, HCR, HCL, CLOSED, IDLE, RES_REMOTE, RES_LOCAL
from engine.runner import Shard
from props import fsm_common as F

MODELS = ['fmt_stub', 'HfSerialize', 'FrameFeed', 'LenBytes']
BOUNDS = {
    'counts': 'after every step of every catalogue entry (all slices) open_outbound_streams / '
              'open_inbound_streams are compared with the RFC count of the observer',
    'limits': 'MAX_CONCURRENT_STREAMS 0..2^32-1 symbolic (current value; for the local limit '
              'also a different pending, unacknowledged value), 0..3 already open streams per '
              'direction in the states open / half-closed / reserved / closed-not-collected',
}
OUTSIDE = ['more than 3 pre-existing streams per direction (the limit comparison is count+1 > '
           'limit: all limit values fall in solver-decided classes)']
ASSUMPTIONS = ['RFC 7540 5.1.2: open and half-closed streams count for the endpoint that '
               'initiated them; reserved streams do not']


def rfc_counts(obs):
    out_n = in_n = 0
    for sid, v in obs.streams.items():
        if v.st in (OPEN, HCL, HCR):
            if obs.own(sid):
                out_n += 1
            else:
                in_n += 1
    return out_n, in_n


def judge_counts(pre, op, out, ctx):
    note(out.cls[0])
    if out.cls[0] in ('crash', 'refused'):
        return          # what a refused call leaves behind: C29 (known finding F-C29-2)
    if ctx.obs.conn_closed is not None:
        return
    if ctx.pre_info is not None and not ctx.pre_info:
        note('pre-state-already-differs')     # reported at the step that introduced it
        return
    eo, ei = rfc_counts(ctx.obs)
    go = ctx.me.open_outbound_streams
    gi = ctx.me.open_inbound_streams
    tag = op[0]
    if len(op) > 1 and isinstance(op[1], int) and op[1] > 0:
        tag = '%s@%s' % (op[0], pre.s(op[1]).st)
    check(go == eo, 'open_outbound_streams-differs:' + tag, (F.op_label(op), go, eo))
    check(gi == ei, 'open_inbound_streams-differs:' + tag, (F.op_label(op), gi, ei))


def pre_agree(ctx):
    if ctx.obs.conn_closed is not None:
        return True
    eo, ei = rfc_counts(ctx.obs)
    return ctx.me.open_outbound_streams == eo and ctx.me.open_inbound_streams == ei


# ---------------------------------------------------------------- limit enforcement
STATES = ['open', 'hcl', 'hcr', 'closed', 'reset']


def _client_streams(ctx, shapes):
    """client-initiated streams 1,3,5.. in the given shapes (run on a client or server ctx)"""
    sid = 1
    for sh in shapes:
        send = ('send_headers' if ctx.client else 'HEADERS')
        recv = ('HEADERS' if ctx.client else 'send_headers')
        ops.run_op(ctx, (send, sid, 'req', sh == ('hcl' if ctx.client else 'hcr')))
        if sh in ('hcr', 'hcl', 'closed') and sh != ('hcl' if ctx.client else 'hcr'):
            ops.run_op(ctx, (recv, sid, 'resp', True))
        if sh == 'closed':
            ops.run_op(ctx, (recv, sid, 'resp', True))
            ops.run_op(ctx, (('send_data' if ctx.client else 'DATA'), sid, True))
        if sh == 'reset':
            ops.run_op(ctx, ('reset', sid))
        ctx.me.data_to_send()
        sid += 2
    return sid


def h_outbound_limit(shapes):
    """client opening one more stream against the peer's limit"""
    def h():
        with h2h.native():
            ctx = ops.Ctx(True)
            nxt = _client_streams(ctx, shapes)
            k, _ = rfc_counts(ctx.obs)
        L = sym_int('limit', 0, INT32, default=1)
        h2h.Adapter.set_remote_setting(ctx.me, SettingCodes.MAX_CONCURRENT_STREAMS, L)
        out = models.Out(ctx.me)
        try:
            ctx.me.send_headers(nxt, h2h.REQ)
        except h2.exceptions.TooManyStreamsError:
            note('refused')
            check(s_lt(L, k + 1), 'opening-refused-below-limit', (k, L))
            check(out.nbytes() == 0, 'refused-opening-emits', None)
            _retry(ctx, lambda: ctx.me.send_headers(nxt, h2h.REQ), k, out)
        else:
            note('opened')
            check(s_le(k + 1, L), 'opened-beyond-peer-limit', (k, L))
            check(ctx.me.open_outbound_streams == k + 1, 'open_outbound_streams-after-opening',
                  None)
    return h


def _retry(ctx, call, k, out):
    """a refused opening contributes nothing: the same call made again (limit unchanged)
    is refused again, and the number of open streams has not moved"""
    try:
        call()
    except h2.exceptions.TooManyStreamsError:
        pass
    except h2.exceptions.ProtocolError as e:
        check(False, 'retry-after-refused-opening:%s' % type(e).__name__, None)
    else:
        check(False, 'retry-after-refused-opening-exceeds-limit', None)
    check(out.nbytes() == 0, 'refused-opening-emits', None)
    check(ctx.me.open_outbound_streams == k, 'refused-opening-counted',
          (ctx.me.open_outbound_streams, k))


def h_outbound_unlimited():
    """no MAX_CONCURRENT_STREAMS received: unlimited"""
    def h():
        with h2h.native():
            ctx = ops.Ctx(True)
            nxt = _client_streams(ctx, ['open', 'open', 'open'])
        ctx.me.send_headers(nxt, h2h.REQ)
        note('opened')
    return h


def h_inbound_limit(shapes, pending):
    """server receiving HEADERS for one more stream against its acknowledged limit"""
    def h():
        with h2h.native():
            ctx = ops.Ctx(False)
            nxt = _client_streams(ctx, shapes)
            _, k = rfc_counts(ctx.obs)
        L = sym_int('limit', 0, INT32, default=1)
        if pending == 'toggled':
            # two changes in flight at once (to L2 and back to L), both acknowledged: the
            # acknowledged limit is L
            h2h.Adapter.set_local_setting(ctx.me, SettingCodes.MAX_CONCURRENT_STREAMS, L)
            L2 = sym_int('pending_limit', 0, INT32, default=0)
            ctx.me.update_settings({SettingCodes.MAX_CONCURRENT_STREAMS: L2})
            ctx.me.update_settings({SettingCodes.MAX_CONCURRENT_STREAMS: L})
            for _ in range(2):
                a = hf.SettingsFrame(0)
                a.flags.add('ACK')
                h2h.deliver(ctx.me, [a])
            ctx.me.data_to_send()
        else:
            h2h.Adapter.set_local_setting(ctx.me, SettingCodes.MAX_CONCURRENT_STREAMS, L)
        if pending is True:
            L2 = sym_int('pending_limit', 0, INT32, default=0)
            ctx.me.update_settings({SettingCodes.MAX_CONCURRENT_STREAMS: L2})
            ctx.me.data_to_send()
        o = ops.run_op(ctx, ('HEADERS', nxt, 'req', False), symbolic=True)
        if o.cls[0] == 'accept':
            note('accepted')
            check(s_le(k + 1, L), 'accepted-beyond-acknowledged-limit', (k, L))
        else:
            note('rejected')
            check(s_lt(L, k + 1), 'rejected-below-acknowledged-limit', (k, L, o.cls))
            check(o.cls[0] in ('conn_error', 'stream_error'), 'limit-rejection-class', o.cls)
    return h


def h_push_limit(npush, answered):
    """server: reserved (pushed) streams do not count; answering them opens them and must
    respect the client's limit"""
    def h():
        with h2h.native():
            ctx = ops.Ctx(False)
            ops.run_op(ctx, ('HEADERS', 1, 'req', False))
            for i in range(npush):
                ops.run_op(ctx, ('push', 1, 2 + 2 * i))
            for i in range(answered):
                ops.run_op(ctx, ('send_headers', 2 + 2 * i, 'resp', False))
            ctx.me.data_to_send()
            k, _ = rfc_counts(ctx.obs)
        check(ctx.me.open_outbound_streams == answered, 'reserved-streams-counted',
              ctx.me.open_outbound_streams)
        push_off = sym_bool('peer_disables_push_now')
        if push_off:
            # the streams already pushed stay what they are
            f = hf.SettingsFrame(0)
            f.settings = {SettingCodes.ENABLE_PUSH: 0}
            h2h.deliver(ctx.me, [f])
            ctx.me.data_to_send()
            check(ctx.me.open_outbound_streams == answered,
                  'open_outbound_streams-differs:after-ENABLE_PUSH=0',
                  (ctx.me.open_outbound_streams, answered))
        L = sym_int('limit', 0, INT32, default=1)
        h2h.Adapter.set_remote_setting(ctx.me, SettingCodes.MAX_CONCURRENT_STREAMS, L)
        # pushing itself is always allowed (reserved streams are not counted) ...
        o = ops.run_op(ctx, ('push', 1, 2 + 2 * npush), symbolic=True)
        if push_off:
            check(o.cls[0] == 'refused', 'push-with-push-disabled', o.cls)
        else:
            check(o.cls == ('ok',), 'push-refused-by-concurrency-limit', o.cls)
        # ... but the send that opens a reserved stream must respect the limit
        if answered < npush:
            sid = 2 + 2 * answered
            out = models.Out(ctx.me)
            try:
                ctx.me.send_headers(sid, h2h.RESP)
            except h2.exceptions.TooManyStreamsError:
                note('refused')
                check(s_lt(L, k + 1), 'opening-refused-below-limit', (k, L))
                check(out.nbytes() == 0, 'refused-opening-emits', None)
                _retry(ctx, lambda: ctx.me.send_headers(sid, h2h.RESP), k, out)
            else:
                note('opened')
                check(s_le(k + 1, L), 'pushed-stream-opened-beyond-peer-limit', (k, L))
    return h


def h_pushed_inbound_limit(npush, answered):
    """client: pushed streams count against ITS limit once the response headers arrive"""
    def h():
        with h2h.native():
            ctx = ops.Ctx(True)
            ops.run_op(ctx, ('send_headers', 1, 'req', False))
            for i in range(npush):
                ops.run_op(ctx, ('PP', 1, 2 + 2 * i))
            for i in range(answered):
                ops.run_op(ctx, ('HEADERS', 2 + 2 * i, 'resp', False))
            ctx.me.data_to_send()
            _, k = rfc_counts(ctx.obs)
        check(ctx.me.open_inbound_streams == answered, 'reserved-streams-counted',
              ctx.me.open_inbound_streams)
        L = sym_int('limit', 0, INT32, default=1)
        h2h.Adapter.set_local_setting(ctx.me, SettingCodes.MAX_CONCURRENT_STREAMS, L)
        if answered < npush:
            sid = 2 + 2 * answered
            o = ops.run_op(ctx, ('HEADERS', sid, 'resp', False), symbolic=True)
            if o.cls[0] == 'accept':
                note('accepted')
                check(s_le(k + 1, L), 'pushed-stream-accepted-beyond-acknowledged-limit',
                      (k, L))
            else:
                note('rejected')
                check(s_lt(L, k + 1), 'rejected-below-acknowledged-limit', (k, L, o.cls))
    return h


def shards(tier, seed):
    out = F.standard_shards(tier, seed, judge_counts, closure=False, pre_hook=pre_agree)
    combos = [[], ['open'], ['hcl'], ['hcr'], ['closed'], ['reset'], ['open', 'open'],
              ['open', 'hcr', 'closed'], ['open', 'open', 'open'], ['reset', 'hcl', 'open']]
    if tier == 'quick':
        combos = combos[:2] + combos[4:8]
    for sh in combos:
        name = '+'.join(sh) or 'none'
        out.append(Shard('outbound_limit/%s' % name, h_outbound_limit(sh),
                         expect=['refused', 'opened']))
        for pending in (False, True, 'toggled'):
            if pending == 'toggled' and len(sh) != 1:
                continue
            out.append(Shard('inbound_limit/%s%s' % (name, '/toggled' if pending == 'toggled'
                                                      else '/pending' if pending else ''),
                             h_inbound_limit(sh, pending), expect=['rejected', 'accepted']))
    out.append(Shard('outbound_unlimited', h_outbound_unlimited(), expect=['opened']))
    for npush, answered in ((1, 0), (3, 0), (3, 1), (3, 2)):
        out.append(Shard('push_limit/pushed=%d/answered=%d' % (npush, answered),
                         h_push_limit(npush, answered)))
        out.append(Shard('pushed_inbound_limit/pushed=%d/answered=%d' % (npush, answered),
                         h_pushed_inbound_limit(npush, answered)))
    return out
