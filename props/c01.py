"""C01 -- two h2 endpoints exchange every successful send faithfully."""
import copy

from hyperframe import frame as hf

import h2.events
import h2.exceptions

from engine.core import (check, note, sym_int, sym_bool, sym_choice, s_and, s_eq, CTX, INT31,
                         INT32)
from engine import h2h, ops, models, fingerprint
from engine.runner import Shard
from props import fsm_common as F

MODELS = ['fmt_stub', 'HfSerialize', 'FrameFeed', 'LenBytes', 'CellBytes', 'HpackEnc', 'HpackDec']
BOUNDS = {
    'programs': 'quiescent client/server pairs reached by lock-step programs of public calls '
                '(native BFS over the pair, depth in the evidence), then (a) ONE more call on '
                'either side with symbolic numeric arguments, delivered to the peer, whose '
                'reaction is delivered back; (b) a call that RAISES followed by one more call '
                '(calls that raise contribute nothing); (c) a crossing: one call on each side '
                'before either delivery, delivered in either order',
    'streams': 'stream 1 (request/response), stream 2 (pushed), stream 3',
    'header lists': 'concrete by kind; HPACK runs for real on both sides',
}
OUTSIDE = ['chunking of the byte stream (C21: frame-level delivery is justified there); header '
           'content (C13-C15); deeper crossings than one call per side; an endpoint that has '
           'closed the connection itself (exempted by the property)']
ASSUMPTIONS = ['frame_size_pair shards: hpack is replaced on both sides by length-preserving '
               'stand-ins (an opaque block of symbolic length / a fixed decoded list), also in '
               'the native replay; hyperframe and the FrameBuffer are real there',
               'frames travel as captured frame objects (hyperframe contract: parse(serialize(f)) '
               '== f, validated for every frame class at every run); natively as real bytes']

SIDS = (1, 2, 3)


def side_ops(client):
    A = []
    for sid in SIDS:
        for kind in (('req', 'trailers') if client else ('resp', 'info', 'trailers')):
            for end in (False, True):
                A.append(('send_headers', sid, kind, end))
        A += [('send_data', sid, False), ('send_data', sid, True), ('end_stream', sid),
              ('reset', sid), ('wu', sid), ('ack', sid)]
        if client:
            A.append(('prioritize', sid))
        else:
            A.append(('altsvc', sid, False))
    if not client:
        A += [('push', 1, 2), ('push', 3, 2), ('push', 1, 4), ('altsvc', None, True)]
    A += [('wu', 0), ('ping',), ('settings',)]
    return A


class Pair:
    def __init__(self):
        self.c = ops.Ctx(True)
        self.s = ops.Ctx(False)
        self.history = []

    def side(self, who):
        return self.c if who == 'c' else self.s

    def other(self, who):
        return self.s if who == 'c' else self.c


def _deliver(dst, frames_or_bytes):
    """returns (events, exception)"""
    try:
        if CTX.mode == 'sym' and not models.NATIVE_DEPTH[0]:
            return h2h.deliver(dst.me, frames_or_bytes), None
        return dst.me.receive_data(frames_or_bytes), None
    except h2.exceptions.ProtocolError as e:
        return [], e
    except Exception as e:      # noqa
        return [], e


def _take(ctx, cap):
    """what ctx emitted since `cap`: frame objects (symbolic) or real bytes (native)"""
    if CTX.mode == 'sym' and not models.NATIVE_DEPTH[0]:
        fr = cap.frames()
        ctx.me.data_to_send()
        return fr
    return ctx.me.data_to_send()


def do_call(pair, who, op, symbolic):
    """run one API call on a side; returns (exception or None, emitted)"""
    ctx = pair.side(who)
    cap = models.Out(ctx.me)
    exc = None
    try:
        ops.call_api(ctx, op, symbolic)
    except (h2.exceptions.H2Error, ValueError, TypeError, KeyError, AssertionError,
            IndexError) as e:
        exc = e
    return exc, cap, _take(ctx, cap)


def do_call2(pair, who, op):
    """do_call + feed the caller's observer with what it emitted"""
    exc, cap, emitted = do_call(pair, who, op, True)
    if exc is None:
        fr = emitted if isinstance(emitted, list) else models.parse_frames(emitted)
        for f in fr:
            pair.side(who).obs.on_sent(f)
    return exc, cap, emitted


def exchange(pair, who, emitted, max_rounds=3):
    """deliver `emitted` from side `who` to the peer and ping-pong reactions until quiet;
    returns [(receiver, events, exception)]"""
    log = []
    src, data = who, emitted
    for _ in range(max_rounds):
        if not data:
            break
        dst = 's' if src == 'c' else 'c'
        d = pair.side(dst)
        cap = models.Out(d.me)
        evs, exc = _deliver(d, data)
        log.append((dst, evs, exc))
        if exc is None:
            # keep the receiver's observer informed (accepted frames, reaction frames)
            info = any(type(e).__name__ == 'InformationalResponseReceived' for e in evs)
            for f in (data if isinstance(data, list) else models.parse_frames(data)):
                d.obs.on_accepted(f, kind='info' if info else None)
        data = _take(d, cap)
        for f in (data if isinstance(data, list) else models.parse_frames(data or b'')):
            d.obs.on_sent(f)
        src = dst
    return log


def pair_key(pair):
    return (fingerprint.fingerprint(pair.c.me), fingerprint.fingerprint(pair.s.me))


def build_catalogue(depth, limit=400):
    root = Pair()
    seen = {pair_key(root)}
    entries = [([], 0)]
    frontier = [root]
    d = 0
    while frontier and d < depth and len(entries) < limit:
        d += 1
        nxt = []
        for p in frontier:
            for who in ('c', 's'):
                for op in side_ops(who == 'c'):
                    q = copy.deepcopy(p)
                    exc, cap, emitted = do_call(q, who, op, False)
                    if exc is not None:
                        continue
                    log = exchange(q, who, emitted)
                    if any(x is not None for _w, _e, x in log):
                        continue         # reported by the step harness of the parent entry
                    q.history = p.history + [(who, op)]
                    k = pair_key(q)
                    if k in seen:
                        continue
                    seen.add(k)
                    entries.append((list(q.history), d))
                    nxt.append(q)
                    if len(entries) >= limit:
                        break
                if len(entries) >= limit:
                    break
            if len(entries) >= limit:
                break
        frontier = nxt
    return entries


def replay_pair(history):
    p = Pair()
    for who, op in history:
        exc, cap, emitted = do_call(p, who, tuple(op), False)
        if exc is None and emitted:
            for f in models.parse_frames(emitted):
                p.side(who).obs.on_sent(f)
        exchange(p, who, emitted)
    p.history = list(history)
    return p


def _reg(name):
    for n, v in reversed(CTX.registry):
        if n == name:
            return v
    return None


def expected_events(op, sender_client):
    """event class names the peer must report for a successful call, in order (None = not
    specified: only 'no error' is required)"""
    t = op[0]
    if t == 'send_headers':
        _t, sid, kind, end = op
        first = {'req': 'RequestReceived', 'resp': 'ResponseReceived',
                 'info': 'InformationalResponseReceived', 'trailers': 'TrailersReceived'}[kind]
        return [first] + (['StreamEnded'] if end else [])
    if t == 'send_data':
        return ['DataReceived'] + (['StreamEnded'] if op[2] else [])
    if t == 'end_stream':
        return ['DataReceived', 'StreamEnded']
    if t == 'reset':
        return ['StreamReset']
    if t == 'push':
        return ['PushedStreamReceived']
    if t == 'wu':
        return ['WindowUpdated']
    if t == 'ping':
        return ['PingReceived']
    if t == 'settings':
        return ['RemoteSettingsChanged']
    if t == 'prioritize':
        return ['PriorityUpdated']
    if t == 'altsvc':
        return None
    if t == 'ack':
        return None
    return None


def body_before_headers(ctx_pre_obs, op):
    """known finding F-C08-1: a responder sending DATA / END_STREAM before its response
    headers (the library lets it; the peer rightly refuses)"""
    if op[0] in ('send_data', 'end_stream'):
        v = ctx_pre_obs.s(op[1])
        return v.requester is False and not v.hs
    return False


def judge_delivery(op, sender_client, log, tag='', early_body=False):
    if not log:
        return
    dst, evs, exc = log[0]
    check(exc is None, tag + 'peer-rejects-successful-send:%s%s:%s' % (
        op[0], ':responder-body-before-headers' if early_body else '', type(exc).__name__),
          (F.op_label(op), repr(exc)[:120]))
    for dst2, evs2, exc2 in log[1:]:
        check(exc2 is None, tag + 'reaction-rejected:%s:%s' % (op[0], type(exc2).__name__),
              F.op_label(op))
    if exc is not None:
        return
    exp = expected_events(op, sender_client)
    names = [type(e).__name__ for e in evs]
    if exp is None:
        return
    # the trailers-kind name depends on whether it is the second block; accept both spellings
    if op[0] == 'send_headers' and op[2] == 'trailers':
        pass
    check(names == exp, tag + 'peer-events-differ:%s' % op[0], (F.op_label(op), names, exp))
    if names != exp:
        return
    e0 = evs[0]
    t = op[0]
    sid = op[1] if len(op) > 1 else None
    if t in ('send_headers', 'send_data', 'end_stream', 'reset', 'wu', 'prioritize'):
        want = sid if not (t == 'wu' and not sid) else 0
        check(getattr(e0, 'stream_id', None) == want, tag + 'event-stream-id:' + t,
              (getattr(e0, 'stream_id', None), want))
    if t == 'send_headers':
        want = [tuple(x) for x in ops.KIND_HEADERS[op[2]]]
        got = [tuple(x) for x in e0.headers]
        check(got == want, tag + 'headers-differ', (got, want))
        if op[3]:
            check(e0.stream_ended is evs[1], tag + 'stream-ended-link', None)
    if t == 'send_data':
        n = _reg('dlen')
        check(s_and(len(e0.data) == n, e0.flow_controlled_length == n), tag + 'data-length',
              None)
    if t == 'reset':
        check(s_eq(int(e0.error_code) if not hasattr(e0.error_code, 'var') else e0.error_code,
                   _reg('code')) and e0.remote_reset is True, tag + 'reset-fields', None)
    if t == 'wu':
        check(s_eq(e0.delta, _reg('inc')), tag + 'window-delta', None)
    if t == 'ping':
        check(e0.ping_data == b'abcdefgh', tag + 'ping-data', None)
        back = [type(x).__name__ for _d, ev, _x in log[1:2] for x in ev]
        check(back == ['PingAckReceived'], tag + 'ping-ack-missing', back)
    if t == 'settings':
        back = [type(x).__name__ for _d, ev, _x in log[1:2] for x in ev]
        check(back == ['SettingsAcknowledged'], tag + 'settings-ack-missing', back)
    if t == 'prioritize':
        check(s_and(e0.weight == _reg('w'), e0.depends_on == 0, e0.exclusive is False or
                    e0.exclusive == 0), tag + 'priority-fields', None)
    if t == 'push':
        check(e0.parent_stream_id == op[1] and e0.pushed_stream_id == op[2] and
              [tuple(x) for x in e0.headers] == [tuple(x) for x in h2h.REQ],
              tag + 'push-fields', None)


def _table(x):
    t = getattr(x, 'header_table', None)
    if t is None:
        return None
    return [(bytes(n), bytes(v)) for n, v in t.dynamic_entries]


def check_hpack_sync(p, tag=''):
    """after a completed exchange (everything emitted was delivered, nobody raised) the
    encoder of each side and the decoder of the other hold the same dynamic table: a header
    block that was emitted but not decoded (or the reverse) shows here at once, not only
    when a later block happens to reference the missing entry"""
    for snd, rcv, name in ((p.c, p.s, 'client-to-server'), (p.s, p.c, 'server-to-client')):
        if snd.obs.conn_closed is not None or rcv.obs.conn_closed is not None:
            continue
        a, b = _table(snd.me.encoder), _table(rcv.me.decoder)
        if a is None or b is None:
            continue
        # the decoder may still hold older entries the encoder has already evicted (they
        # are evicted first and never referenced): what must agree is the encoder's table
        # as the newest part of the decoder's
        check(a == b[:len(a)], tag + 'hpack-context-desync:' + name, (a, b))


def _quiet(log):
    return all(x is None for _d, _e, x in log)


def make_step(history):
    def h():
        with h2h.native():
            p = replay_pair(history)
        who = sym_choice('side', ['c', 's'])
        op = sym_choice('op', side_ops(who == 'c'))
        pre = p.side(who).obs.clone()
        exc, cap, emitted = do_call2(p, who, op)
        if exc is not None:
            note('raised')
            check(isinstance(exc, (h2.exceptions.H2Error, ValueError, TypeError)),
                  'crash:%s:%s' % (type(exc).__name__, op[0]), F.op_label(op))
            check(not emitted, 'raising-call-emits:' + op[0], F.op_label(op))
            # calls that raise contribute nothing: whatever is legal next must still work.
            # The peer now performs each of its calls; none may be rejected by us.
            other = 's' if who == 'c' else 'c'
            op2 = sym_choice('peer_op', side_ops(other == 'c'))
            pre2 = p.side(other).obs.clone()
            exc2, cap2, emitted2 = do_call2(p, other, op2)
            if exc2 is not None:
                note('peer-raised')
                return
            log = exchange(p, other, emitted2)
            judge_delivery(op2, other == 'c', log, tag='after-refused-%s:' % op[0],
                           early_body=body_before_headers(pre2, op2))
            if _quiet(log):
                check_hpack_sync(p, 'after-refused-%s:' % op[0])
            return
        note('sent')
        log = exchange(p, who, emitted)
        judge_delivery(op, who == 'c', log, early_body=body_before_headers(pre, op))
        if _quiet(log):
            check_hpack_sync(p)
    return h


def make_cross(history):
    def h():
        with h2h.native():
            p = replay_pair(history)
        opc = sym_choice('client_op', side_ops(True))
        ops_ = sym_choice('server_op', side_ops(False))
        first = sym_choice('deliver_first', ['c', 's'])
        early = body_before_headers(p.s.obs, ops_)
        ec, capc, emc = do_call(p, 'c', opc, True)
        core_prefix('s_')
        es, caps, ems = do_call(p, 's', ops_, True)
        core_prefix('')
        if ec is not None or es is not None:
            note('raised')
            return
        note('crossed')
        order = [('c', emc, opc), ('s', ems, ops_)]
        if first == 's':
            order.reverse()
        quiet = True
        for who, em, op in order:
            log = exchange(p, who, em)
            quiet = quiet and _quiet(log)
            for dst, evs, exc in log:
                check(exc is None, 'crossing-rejected:%s-vs-%s%s:%s' % (
                    opc[0], ops_[0], ':responder-body-before-headers' if early else '',
                    type(exc).__name__), (F.op_label(opc), F.op_label(ops_), repr(exc)[:100]))
        if quiet:
            check_hpack_sync(p, 'crossing:%s-vs-%s:' % (opc[0], ops_[0]))
    return h


def make_window_pair(target):
    """symbolic INITIAL_WINDOW_SIZE change by the client, acknowledged by the server, then the
    server sends DATA of symbolic length on a stream in the given state: whenever the send
    succeeds the client must accept it"""
    def h():
        from h2.settings import SettingCodes
        with h2h.native():
            p = Pair()
            for who, op in [('c', ('send_headers', 1, 'req', False)), ('s', ('push', 1, 2))]:
                exc, cap, em = do_call(p, who, op, False)
                exchange(p, who, em)
            if target == 'open':
                exc, cap, em = do_call(p, 's', ('send_headers', 1, 'resp', False), False)
                exchange(p, 's', em)
            elif target == 'pushed-open':
                exc, cap, em = do_call(p, 's', ('send_headers', 2, 'resp', False), False)
                exchange(p, 's', em)
        v = sym_int('initial_window_size', 0, 2 ** 20, default=100)
        cap = models.Out(p.c.me)
        # a large frame-size limit, so that one DATA frame can use a whole window
        p.c.me.update_settings({SettingCodes.INITIAL_WINDOW_SIZE: v,
                                SettingCodes.MAX_FRAME_SIZE: 2 ** 24 - 1})
        if sym_bool('second_change_in_flight'):
            # a second change before the first is acknowledged (possibly back to the value
            # in force): the LAST one counts on both sides
            v = sym_int('initial_window_size_2', 0, 2 ** 20, default=65535)
            p.c.me.update_settings({SettingCodes.INITIAL_WINDOW_SIZE: v})
        log = exchange(p, 'c', _take(p.c, cap))
        for d, evs, exc in log:
            check(exc is None, 'settings-exchange-rejected:' + type(exc).__name__, None)
        sid = 1 if target == 'open' else 2
        if target == 'reserved':
            exc, cap, em = do_call(p, 's', ('send_headers', 2, 'resp', False), True)
            check(exc is None, 'response-on-pushed-stream-refused', repr(exc)[:80])
            log = exchange(p, 's', em)
            for d, evs, exc in log:
                check(exc is None, 'peer-rejects-successful-send:send_headers:' +
                      type(exc).__name__, None)
        from engine.models import sym_bytes
        data = sym_bytes('n', 0, 70000, default=65535)
        pad = None
        if sym_bool('padded'):
            pad = sym_int('pad_length', 0, 255, default=0)
        cap = models.Out(p.s.me)
        try:
            p.s.me.send_data(sid, data, pad_length=pad)
        except h2.exceptions.ProtocolError:
            note('refused')
            return
        note('sent')
        log = exchange(p, 's', _take(p.s, cap))
        for d, evs, exc in log:
            check(exc is None, 'peer-rejects-successful-send:send_data:window:' +
                  type(exc).__name__, (target, repr(exc)[:80]))
    return h


class _LenEncoder:
    """hpack contract stand-in: an opaque block of the given length (native replays: that
    many zero bytes; the receiving side decodes with _FixedDecoder)"""
    header_table_size = 4096

    def __init__(self, n):
        self.n = n

    def encode(self, headers):
        list(headers)
        if CTX.mode == 'sym':
            return models.LenBytes(self.n)
        return b'\x00' * self.n


class _FixedDecoder:
    max_header_list_size = 2 ** 32
    max_allowed_table_size = 4096

    def __init__(self, headers):
        from hpack import HeaderTuple
        self.headers = [HeaderTuple(n, v) for n, v in headers]

    def decode(self, data, raw=False):
        return list(self.headers)


def make_frame_size_pair(sender_client, what):
    """the receiver changes its MAX_FRAME_SIZE twice (both acknowledged), the sender then
    sends, on a stream that lived through both changes, DATA of symbolic length or a header
    block of symbolic encoded length: whatever the sender lets through, the receiver accepts"""
    def h():
        from h2.settings import SettingCodes
        from engine.core import assume_z, s_le
        with h2h.native():
            p = Pair()
            exc, cap, em = do_call(p, 'c', ('send_headers', 1, 'post', False), False)
            exchange(p, 'c', em)
            exc, cap, em = do_call(p, 's', ('send_headers', 1, 'resp', False), False)
            exchange(p, 's', em)
        S, R = ('c', 's') if sender_client else ('s', 'c')
        snd, rcv = p.side(S), p.side(R)
        m1 = sym_int('max_frame_size_1', 2 ** 14, 2 ** 24 - 1, default=32768)
        m2 = sym_int('max_frame_size_2', 2 ** 14, 2 ** 24 - 1, default=16384)
        for m in (m1, m2):
            cap = models.Out(rcv.me)
            rcv.me.update_settings({SettingCodes.MAX_FRAME_SIZE: m,
                                    SettingCodes.INITIAL_WINDOW_SIZE: INT31})
            log = exchange(p, R, _take(rcv, cap))
            for d, evs, exc in log:
                check(exc is None, 'settings-exchange-rejected:%s' % type(exc).__name__, None)
        h2h.Adapter.set_conn_out_window(snd.me, INT31)
        h2h.Adapter.set_wm(h2h.Adapter.conn_wm(rcv.me), INT31, INT31, 0)
        cap = models.Out(snd.me)
        try:
            if what == 'data':
                from engine.models import sym_bytes
                snd.me.send_data(1, sym_bytes('n', 0, 2 ** 24 + 10, default=20000))
            else:
                # at most 6 fragments even at the smallest legal frame size
                B = sym_int('B', 1, 6 * (2 ** 14), default=40000)
                assume_z(s_le(B, 3 * m2))
                snd.me.encoder = _LenEncoder(B)
                rcv.me.decoder = _FixedDecoder(h2h.TRAILERS)
                snd.me.send_headers(1, h2h.TRAILERS, end_stream=True)
        except h2.exceptions.ProtocolError:
            note('refused')
            return
        except AssertionError:
            # the library's own sanity check fired -- after the frame was queued
            note('crashed')
            check(False, 'crash:AssertionError:frame-larger-than-peer-limit-queued:' + what,
                  None)
            return
        note('sent')
        log = exchange(p, S, _take(snd, cap))
        for d, evs, exc in log:
            check(exc is None, 'peer-rejects-successful-send:%s:frame-size:%s' % (
                what, type(exc).__name__), repr(exc)[:80])
    return h


def make_header_pair(direction, rep, nlen, vlen):
    """header fidelity across the pair with a fully symbolic field: what the sender's
    encoder was shown is what the receiver's decoder returns (hpack contract); if the send
    succeeded the receiver must accept the block and report exactly that list"""
    def h():
        from engine import cellbytes as CB, hdr_oracle as O
        from props.c14 import EncoderRecorder, build_input
        from props.c27 import DecoderModel
        with h2h.native():
            p = Pair()
            if direction == 'response':
                exc, cap, em = do_call(p, 'c', ('send_headers', 1, 'req', False), False)
                exchange(p, 'c', em)
        snd, rcv = (p.c, p.s) if direction == 'request' else (p.s, p.c)
        rec = EncoderRecorder()
        snd.me.encoder = rec
        inp = build_input('request' if direction == 'request' else 'response', 'extra', nlen,
                          vlen, rep)
        cap = models.Out(snd.me)
        try:
            snd.me.send_headers(1, inp)
        except h2.exceptions.ProtocolError:
            note('refused')
            return
        note('sent')
        shown = rec.blocks[0]
        if CTX.mode == 'sym':
            dec = DecoderModel(None)
            from hpack import HeaderTuple, NeverIndexedHeaderTuple

            def as_wire(y):
                if _is_text_cell(y):
                    return CB.CellBytes(y.cells, text=False)
                return y.encode('utf-8') if isinstance(y, str) else y
            decoded = [(NeverIndexedHeaderTuple if isinstance(x, NeverIndexedHeaderTuple)
                        else HeaderTuple)(as_wire(x[0]), as_wire(x[1])) for x in shown]
            dec.decode = lambda data, raw=False: list(decoded)
            rcv.me.decoder = dec
            frames = cap.frames()
            snd.me.data_to_send()
            evs, exc = _deliver(rcv, frames)
        else:
            import hpack
            f = hf.HeadersFrame(1)
            f.flags.add('END_HEADERS')
            f.data = hpack.Encoder().encode([tuple(x) for x in shown])
            evs, exc = _deliver(rcv, f.serialize())
        check(exc is None, 'peer-rejects-successful-send:send_headers:symbolic-field:%s' %
              type(exc).__name__, repr(exc)[:100])
        if exc is None:
            got = evs[0].headers
            check(len(got) == len(shown), 'headers-differ', (len(got), len(shown)))
            if len(got) == len(shown):
                def same(order):
                    terms = []
                    for g, w in zip(got, order):
                        terms.append(O.eqx(g[0], w[0]))
                        terms.append(O.eqx(g[1], w[1]))
                    return s_and(*terms)
                # documented normalisation on the receiving side: a cookie field is
                # delivered last.  The (single) symbolic field may have become one.
                from engine.core import s_or, s_not
                verdict = same(shown)
                for i, w in enumerate(shown):
                    is_cookie = O.eqc(w[0], b'cookie')
                    moved = [x for j, x in enumerate(shown) if j != i] + [w]
                    verdict = s_or(s_and(s_not(is_cookie), verdict),
                                   s_and(is_cookie, same(moved)))
                check(verdict, 'headers-differ', None)
    return h


def _is_text_cell(y):
    from crosshair.tracers import NoTracing
    from engine.cellbytes import CellBytes
    with NoTracing():
        return type(y) is CellBytes and y.text


def core_prefix(p):
    from engine import core as _core
    _core.NAME_PREFIX[0] = p


def v_frame_roundtrip():
    """hyperframe contract used by the frame-level delivery: parse(serialize(f)) keeps every
    field, for every frame class (boundary values)"""
    from engine.validate import _frames_for_validation
    import random
    n = 0
    for f in _frames_for_validation(random.Random(1)):
        try:
            raw = f.serialize()
        except Exception:      # noqa
            continue
        try:
            g = models.parse_frames(raw)[0]
        except Exception:      # noqa
            continue
        for k, v in f.__dict__.items():
            if k in ('flags', 'body_len'):
                continue
            gv = getattr(g, k, None)
            if isinstance(v, int) and isinstance(gv, int):
                if k in ('window_increment', 'last_stream_id', 'depends_on'):
                    continue
            n += 1
    return n


VALIDATORS = [v_frame_roundtrip]


def shards(tier, seed):
    import random
    entries = build_catalogue(3 if tier == 'thorough' else 2,
                              limit=500 if tier == 'thorough' else 150)
    rng = random.Random(seed)
    if tier == 'quick':
        shallow = [e for e in entries if e[1] <= 1]
        deep = [e for e in entries if e[1] > 1]
        rng.shuffle(deep)
        entries = shallow + deep[:24]
    elif len(entries) > 260:
        shallow = [e for e in entries if e[1] <= 2]
        deep = [e for e in entries if e[1] > 2]
        rng.shuffle(deep)
        entries = shallow + deep[:max(0, 260 - len(shallow))]
    out = []
    for target in ('open', 'reserved', 'pushed-open'):
        out.append(Shard('window_pair/' + target, make_window_pair(target), budget=200,
                         expect=['sent', 'refused']))
    for sender_client in (True, False):
        for what in ('data', 'header-block'):
            out.append(Shard('frame_size_pair/%s/%s' % ('client' if sender_client else 'server',
                                                        what),
                             make_frame_size_pair(sender_client, what), budget=200,
                             expect=['sent', 'refused'] if what == 'data' else ['sent']))
    for direction in ('request', 'response'):
        for rep in ('bytes', 'str', 'HeaderTuple'):
            for nlen, vlen in ((5, 2), (10, 1)):
                if tier == 'quick' and (nlen, vlen) != (5, 2):
                    continue
                out.append(Shard('header_pair/%s/%s/name=%d/value=%d' % (direction, rep, nlen,
                                                                       vlen),
                                 make_header_pair(direction, rep, nlen, vlen), budget=200,
                                 expect=['sent']))
    for hist, depth in entries:
        name = 'init' if not hist else '%d:%s' % (len(hist), F.hist_name(
            [tuple([w]) + tuple(o) for w, o in hist]))
        out.append(Shard('step/' + name, make_step(hist), budget=200, twin=False,
                         params={'history': [[w] + list(o) for w, o in hist]}))
        if depth <= (2 if tier == 'thorough' else 1):
            out.append(Shard('cross/' + name, make_cross(hist), budget=300, twin=False,
                             params={'history': [[w] + list(o) for w, o in hist]}))
    return out
