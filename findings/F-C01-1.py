"""a refused send_data closes the stream behind the caller's back. exit 1 while it reproduces."""
import sys
import h2.connection, h2.config, h2.exceptions
c = h2.connection.H2Connection(h2.config.H2Configuration(client_side=True))
c.initiate_connection(); c.data_to_send()
c.send_headers(1, [(':method', 'GET'), (':scheme', 'https'), (':authority', 'x'), (':path', '/')],
               end_stream=True)
c.data_to_send()
before = c.open_outbound_streams
try:
    c.send_data(1, b'x')            # refused: the stream is half-closed(local)
    sys.exit(0)
except h2.exceptions.ProtocolError:
    pass
after = c.open_outbound_streams
if before == 1 and after == 0 and not c.data_to_send():
    print("reproduced: refused send_data closed stream 1 (open_outbound_streams %d -> %d)" % (before, after))
    sys.exit(1)
sys.exit(0)
