"""server sends DATA before any response HEADERS.  exit 1 while the finding reproduces."""
import sys
import h2.connection, h2.config, h2.exceptions
c = h2.connection.H2Connection(h2.config.H2Configuration(client_side=True))
s = h2.connection.H2Connection(h2.config.H2Configuration(client_side=False))
c.initiate_connection(); s.initiate_connection()
s.receive_data(c.data_to_send()); c.receive_data(s.data_to_send()); s.receive_data(c.data_to_send())
c.send_headers(1, [(':method', 'GET'), (':scheme', 'https'), (':authority', 'x'), (':path', '/')])
s.receive_data(c.data_to_send()); s.data_to_send()
try:
    s.send_data(1, b'body before headers')
except h2.exceptions.ProtocolError:
    sys.exit(0)
print("reproduced: %d bytes of DATA emitted before response headers" % len(s.data_to_send()))
sys.exit(1)
