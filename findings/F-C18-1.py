"""undecodable header block => GOAWAY(PROTOCOL_ERROR) instead of COMPRESSION_ERROR. exit 1 while it reproduces."""
import sys
import h2.connection, h2.config, h2.exceptions, h2.errors
import hyperframe.frame as hf
s = h2.connection.H2Connection(h2.config.H2Configuration(client_side=False))
s.initiate_connection()
st = hf.SettingsFrame(0)
s.receive_data(b'PRI * HTTP/2.0\r\n\r\nSM\r\n\r\n' + st.serialize()); s.data_to_send()
f = hf.HeadersFrame(1); f.flags.add('END_HEADERS'); f.data = b'\xff\x7f'   # invalid table index
try:
    s.receive_data(f.serialize())
except h2.exceptions.ProtocolError as e:
    if e.error_code == h2.errors.ErrorCodes.PROTOCOL_ERROR:
        print("reproduced: error_code", e.error_code); sys.exit(1)
sys.exit(0)
