"""1xx HEADERS on a half-closed(remote) stream: PROTOCOL_ERROR connection error instead of a
STREAM_CLOSED stream error.  exit 1 while the finding reproduces."""
import sys
import h2.connection, h2.config, h2.exceptions, h2.errors
import hpack, hyperframe.frame as hf
c = h2.connection.H2Connection(h2.config.H2Configuration(client_side=True))
s = h2.connection.H2Connection(h2.config.H2Configuration(client_side=False))
c.initiate_connection(); s.initiate_connection()
s.receive_data(c.data_to_send()); c.receive_data(s.data_to_send()); s.receive_data(c.data_to_send())
REQ = [(':method', 'GET'), (':scheme', 'https'), (':authority', 'x'), (':path', '/')]
c.send_headers(1, REQ, end_stream=True)
s.receive_data(c.data_to_send())           # server: stream 1 half-closed(remote)
f = hf.HeadersFrame(1); f.flags.add('END_HEADERS')
f.data = hpack.Encoder().encode([(':status', '100')])
try:
    s.receive_data(f.serialize())
except h2.exceptions.ProtocolError as e:
    if e.error_code == h2.errors.ErrorCodes.PROTOCOL_ERROR:
        print("reproduced: GOAWAY(PROTOCOL_ERROR) for 1xx HEADERS on half-closed(remote)")
        sys.exit(1)
sys.exit(0)
