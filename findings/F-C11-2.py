"""first SETTINGS ACK applies the changes of two frames. exit 1 while it reproduces."""
import sys
import h2.connection, h2.config, h2.events
from h2.settings import SettingCodes
import hyperframe.frame as hf
c = h2.connection.H2Connection(h2.config.H2Configuration(client_side=True))
c.initiate_connection()
a = hf.SettingsFrame(0); a.flags.add('ACK')
c.receive_data(hf.SettingsFrame(0).serialize() + a.serialize()); c.data_to_send()
c.update_settings({SettingCodes.MAX_CONCURRENT_STREAMS: 5})
c.update_settings({SettingCodes.MAX_FRAME_SIZE: 32768})
evs = c.receive_data(a.serialize())
changed = sorted(int(k) for k in evs[0].changed_settings)
if changed == [3, 5] and c.max_inbound_frame_size == 32768:
    print("reproduced: first ACK applied", changed); sys.exit(1)
sys.exit(0)
