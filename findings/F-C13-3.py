"""peer raises HEADER_TABLE_SIZE, then lowers it, before we send the next header block: the
next block announces BOTH sizes (hpack's encoder emits every intermediate size, RFC 7541 4.2
asks for the smallest and the final one only); the first one is above the peer's limit by
now and the peer (another h2 endpoint) rejects the block.  exit 1 while it reproduces."""
import sys
import h2.connection, h2.config, h2.settings, h2.exceptions
SC = h2.settings.SettingCodes
c = h2.connection.H2Connection(h2.config.H2Configuration(client_side=True))
s = h2.connection.H2Connection(h2.config.H2Configuration(client_side=False))
c.initiate_connection(); s.initiate_connection()


def pump():
    for _ in range(3):
        d = c.data_to_send()
        if d:
            s.receive_data(d)
        d = s.data_to_send()
        if d:
            c.receive_data(d)


pump()
REQ = [(b':method', b'GET'), (b':scheme', b'https'), (b':authority', b'example.com'),
       (b':path', b'/')]
for v in (8192, 64):
    s.update_settings({SC.HEADER_TABLE_SIZE: v}); pump()
try:
    c.send_headers(1, REQ, end_stream=True); pump()
except h2.exceptions.ProtocolError as e:
    print("reproduced:", e); sys.exit(1)
sys.exit(0)
