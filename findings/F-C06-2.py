"""PUSH_PROMISE on a half-closed(remote) parent closes the parent silently. exit 1 while it reproduces."""
import sys
import h2.connection, h2.config, h2.exceptions
import hpack, hyperframe.frame as hf
c = h2.connection.H2Connection(h2.config.H2Configuration(client_side=True))
c.initiate_connection()
s = hf.SettingsFrame(0); a = hf.SettingsFrame(0); a.flags.add('ACK')
c.receive_data(s.serialize() + a.serialize()); c.data_to_send()
c.send_headers(1, [(':method', 'GET'), (':scheme', 'https'), (':authority', 'x'), (':path', '/')])
c.data_to_send()
enc = hpack.Encoder()
h = hf.HeadersFrame(1); h.flags.add('END_HEADERS'); h.flags.add('END_STREAM')
h.data = enc.encode([(':status', '200')])
c.receive_data(h.serialize())                      # stream 1: half-closed(remote)
pp = hf.PushPromiseFrame(1); pp.promised_stream_id = 2; pp.flags.add('END_HEADERS')
pp.data = enc.encode([(':method', 'GET'), (':scheme', 'https'), (':authority', 'x'), (':path', '/p')])
c.receive_data(pp.serialize())
out = c.data_to_send()
frames = []
while out:
    f, n = hf.Frame.parse_frame_header(memoryview(out[:9])); f.parse_body(memoryview(out[9:9+n])); frames.append(f); out = out[9+n:]
closed = c.streams[1].closed if 1 in c.streams else True
rst_for_parent = any(isinstance(f, hf.RstStreamFrame) and f.stream_id == 1 for f in frames)
if closed and not rst_for_parent:
    print("reproduced: stream 1 closed locally, frames sent:", [(type(f).__name__, f.stream_id) for f in frames])
    sys.exit(1)
sys.exit(0)
