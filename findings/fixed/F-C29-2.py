"""F-C29-2 (fixed): a refused send_headers / push_stream used up the stream id it would have
opened.  Run with PYTHONPATH=<tree>/src; exits 1 on a tree where it reproduces."""
import sys
import h2.connection, h2.config, h2.exceptions
c = h2.connection.H2Connection(h2.config.H2Configuration(client_side=True))
c.initiate_connection(); c.data_to_send()
try:
    c.send_headers(1, [(':status', '200')])          # not a request: refused
    sys.exit(0)
except h2.exceptions.ProtocolError:
    pass
bad = []
if c.highest_outbound_stream_id != 0 or 1 in c.streams:
    bad.append("stream 1 exists after the refused call (highest id %d)" % c.highest_outbound_stream_id)
try:
    c.send_headers(1, [(':method', 'GET'), (':scheme', 'https'), (':authority', 'x'), (':path', '/')])
except h2.exceptions.ProtocolError as e:
    bad.append("the valid request on stream 1 is refused afterwards: %r" % e)
if bad:
    print("reproduced:", "; ".join(bad)); sys.exit(1)
sys.exit(0)
