"""F-C06-3 (fixed): a PUSH_PROMISE on a parent we reset that re-promises a stream id already in
use made the library send RST_STREAM for that (live) stream without closing it locally.
Run with PYTHONPATH=<tree>/src; exits 1 on a tree where it reproduces."""
import sys
import h2.connection, h2.config, h2.exceptions, h2.events
import hyperframe.frame as hf, hpack
c = h2.connection.H2Connection(h2.config.H2Configuration(client_side=True))
c.initiate_connection(); c.data_to_send()
REQ = [(':method', 'GET'), (':scheme', 'https'), (':authority', 'x'), (':path', '/')]
c.send_headers(1, REQ); c.data_to_send()
enc = hpack.Encoder()


def pp(parent, promised):
    f = hf.PushPromiseFrame(parent); f.promised_stream_id = promised
    f.flags.add('END_HEADERS'); f.data = enc.encode(REQ)
    return f.serialize()


c.receive_data(hf.SettingsFrame(0).serialize() + pp(1, 2))
h = hf.HeadersFrame(2); h.flags.add('END_HEADERS'); h.data = enc.encode([(':status', '200')])
c.receive_data(h.serialize())                       # stream 2 is now half-closed(local), alive
c.reset_stream(1); c.data_to_send()
try:
    c.receive_data(pp(1, 2))                        # the peer re-promises the live stream 2
except h2.exceptions.ProtocolError:
    sys.exit(0)                                     # RFC 7540 6.6: connection error
out = c.data_to_send()
frames = []
while out:
    f, n = hf.Frame.parse_frame_header(memoryview(out[:9])); f.parse_body(memoryview(out[9:9 + n]))
    frames.append(f); out = out[9 + n:]
rst = [f for f in frames if isinstance(f, hf.RstStreamFrame) and f.stream_id == 2]
alive = 2 in c.streams and not c.streams[2].closed
if rst and alive:
    print("reproduced: RST_STREAM sent for stream 2, which the library still treats as open")
    sys.exit(1)
sys.exit(0)
