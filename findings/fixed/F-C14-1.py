"""F-C14-1 (fixed): a refused trailer block wedged the stream.  Run with PYTHONPATH=<tree>/src;
exits 1 on a tree where it reproduces."""
import sys
import h2.connection, h2.config, h2.exceptions
import hyperframe.frame as hf, hpack
s = h2.connection.H2Connection(h2.config.H2Configuration(client_side=False))
s.initiate_connection()
req = hf.HeadersFrame(1); req.flags.add('END_HEADERS')
req.data = hpack.Encoder().encode([(':method', 'GET'), (':scheme', 'https'), (':authority', 'x'), (':path', '/')])
s.receive_data(b'PRI * HTTP/2.0\r\n\r\nSM\r\n\r\n' + hf.SettingsFrame(0).serialize() + req.serialize())
s.send_headers(1, [(':status', '200')])
try:
    s.send_headers(1, [('te', 'gzip')], end_stream=True)     # refused: TE in trailers
    sys.exit(0)
except h2.exceptions.ProtocolError:
    pass
try:
    s.send_headers(1, [('x-trailer', 'v')], end_stream=True)  # correct trailers
except h2.exceptions.ProtocolError as e:
    print("reproduced: correct trailers refused after a refused block: %r" % e); sys.exit(1)
sys.exit(0)
