"""End-to-end reproduction of F-C05-2 (fixed in /repo bb0c547): run with PYTHONPATH=<tree>/src.
On the unfixed tree prints "above 2^31-1: True" and the peer resets the stream."""
import h2.connection, h2.config, h2.settings, h2.events, time
INT31=2**31-1
SC=h2.settings.SettingCodes
c=h2.connection.H2Connection(h2.config.H2Configuration(client_side=True))
s=h2.connection.H2Connection(h2.config.H2Configuration(client_side=False))
c.initiate_connection(); s.initiate_connection()
s.update_settings({SC.MAX_FRAME_SIZE: 2**24-1})
def pump():
    for _ in range(3):
        d=c.data_to_send(); 
        if d: s.receive_data(d)
        d=s.data_to_send()
        if d: c.receive_data(d)
pump()
c.send_headers(1,[(':method','POST'),(':path','/'),(':scheme','https'),(':authority','x')])
pump()
s.increment_flow_control_window(INT31-65535, stream_id=1)
s.increment_flow_control_window(INT31-65535)
pump()
chunk=b'x'*(2**24-1)
D=0; t=time.time()
while D < (INT31+500)//2 + 1:
    c.send_data(1,chunk); D+=len(chunk)
    s.receive_data(c.data_to_send())
print('sent', D, '%.1fs'%(time.time()-t))
wm=s.streams[1]._inbound_window_manager
s.update_settings({SC.INITIAL_WINDOW_SIZE: 65535+500})
pump()
print('after ack cur,max', wm.current_window_size, wm.max_window_size, wm.max_window_size>INT31)
s.acknowledge_received_data(D,1)
print('cur', wm.current_window_size, 'above 2^31-1:', wm.current_window_size>INT31)
try:
    evs=c.receive_data(s.data_to_send()); print(evs)
except Exception as e:
    print('client raised', type(e).__name__, e)
